#!/usr/bin/env python3
"""mktables.py — regenerate the seeded-change and hand-mutant tables of DESIGN.md (between the BEGIN/END markers)."""
import json, os, glob, re
ROOT = os.path.dirname(os.path.dirname(os.path.abspath(__file__)))

def esc(s):
    return s.replace("|", "\\|").replace("\n", " ")

def seeded():
    rows = ["| seed | change (summary) | needs | detected by | time | first message |", "|---|---|---|---|---|---|"]
    for d in sorted(glob.glob(os.path.join(ROOT, "seeded", "*"))):
        name = os.path.basename(d)
        try:
            meta = json.load(open(os.path.join(d, "meta.json")))
            runs = json.load(open(os.path.join(d, "runs.json")))
        except Exception:
            continue
        last = runs[-1]
        det, tm, msg = [], "", ""
        for c, r in sorted(last.get("checks", {}).items()):
            if r.get("exit") == 1:
                det.append(c)
                tm = "%ss" % r.get("wall_s")
                msg = msg or r.get("msg", "")
            else:
                det.append("%s: exit %s" % (c, r.get("exit")))
        rows.append("| %s | %s | %s | %s | %s | %s |" % (name, esc(meta.get("summary", ""))[:260], esc(meta.get("needs", ""))[:160], ", ".join(det) or "—", tm, esc(msg)[:160]))
    return "\n".join(rows)

def handmut():
    muts = json.load(open(os.path.join(ROOT, "tools", "handmutants.json")))
    try:
        res = json.load(open(os.path.join(ROOT, "tools", "handmutants_results.json")))
    except Exception:
        res = {}
    rows = ["| mutant | file | change | suite | detected by (quick) | time |", "|---|---|---|---|---|---|"]
    for m in muts:
        r = res.get(m["name"])
        if not r:
            rows.append("| %s | %s | %s | not run | | |" % (m["name"], m["file"], esc(m.get("note", ""))[:200]))
            continue
        det = []
        tm = ""
        for c, v in sorted(r["checks"].items()):
            det.append(c if v["exit"] == 1 else "%s: MISSED (exit %s)" % (c, v["exit"]))
            tm = "%ss" % v["wall_s"]
        rows.append("| %s | %s | %s | %s | %s | %s |" % (m["name"], m["file"], esc(m.get("note", ""))[:200], "passes" if r["suite_passes"] else "FAILS", ", ".join(det), tm))
    return "\n".join(rows)

def main():
    p = os.path.join(ROOT, "DESIGN.md")
    s = open(p).read()
    for key, fn in (("seeded", seeded), ("handmut", handmut)):
        s = re.sub(r"<!-- BEGIN:%s -->.*?<!-- END:%s -->" % (key, key), lambda m: "<!-- BEGIN:%s -->\n%s\n<!-- END:%s -->" % (key, fn(), key), s, flags=re.S)
    open(p, "w").write(s)

if __name__ == "__main__":
    main()
