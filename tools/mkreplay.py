#!/usr/bin/env python3
"""mkreplay.py <property> <check> <name> <msg> <case-json>  -> replays/<property>/<name>.json"""
import json, os, sys
prop, check, name, msg, case = sys.argv[1:6]
d = {"property": prop, "check": check, "msg": msg, "case": json.loads(case)}
p = os.path.join(os.path.dirname(os.path.dirname(os.path.abspath(__file__))), "replays", prop)
os.makedirs(p, exist_ok=True)
with open(os.path.join(p, name + ".json"), "w") as f:
    json.dump(d, f, indent=1, ensure_ascii=False); f.write("\n")
print(os.path.join("replays", prop, name + ".json"))
