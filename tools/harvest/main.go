// harvest collects the JSONata expressions used by the repository's own tests
// (string literals under Expression:/Input: keys in *_test.go) into
// /verif/corpus/exprs.json. One-off tool; its output is committed.
package main

import (
	"encoding/json"
	"fmt"
	"go/ast"
	"go/parser"
	"go/token"
	"os"
	"sort"
	"strconv"
)

func main() {
	files := []string{"/repo/jsonata_test.go", "/repo/jparse/jparse_test.go", "/repo/jparse/lexer_test.go", "/repo/callable_test.go", "/repo/example_eval_test.go", "/repo/example_exts_test.go"}
	seen := map[string]bool{}
	var add func(e ast.Expr)
	add = func(e ast.Expr) {
		switch e := e.(type) {
		case *ast.BasicLit:
			if e.Kind == token.STRING {
				if s, err := strconv.Unquote(e.Value); err == nil {
					seen[s] = true
				}
			}
		case *ast.CompositeLit:
			for _, el := range e.Elts {
				add(el)
			}
		}
	}
	for _, f := range files {
		fs := token.NewFileSet()
		af, err := parser.ParseFile(fs, f, nil, 0)
		if err != nil {
			fmt.Fprintln(os.Stderr, err)
			continue
		}
		ast.Inspect(af, func(n ast.Node) bool {
			kv, ok := n.(*ast.KeyValueExpr)
			if !ok {
				return true
			}
			id, ok := kv.Key.(*ast.Ident)
			if !ok {
				return true
			}
			if id.Name == "Expression" || id.Name == "Input" {
				add(kv.Value)
			}
			return true
		})
	}
	var out []string
	for s := range seen {
		if len(s) <= 400 {
			out = append(out, s)
		}
	}
	sort.Strings(out)
	b, _ := json.MarshalIndent(out, "", " ")
	os.WriteFile("/verif/corpus/exprs.json", b, 0o644)
	fmt.Println(len(out), "expressions")
}
