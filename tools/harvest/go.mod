module verif/tools/harvest
go 1.23
