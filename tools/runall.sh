#!/bin/sh
# runall.sh <quick|thorough> [seed] [ids...]  — run a tier of every (or the named) check, one after the other; summary to stdout
tier=${1:-quick}; seed=${2:-1}; shift 2 2>/dev/null
ids="$*"
[ -z "$ids" ] && ids="C01 C02 C03 C04 C05 C06 C07 C08 C09 C10 C11 C12 C13 C14 C15 C16 C17 C18 C19 C20"
root=$(dirname "$(dirname "$(readlink -f "$0")")")
for id in $ids; do
  t0=$(date +%s)
  out=$(VERIF_SEED=$seed "$root/bin/check" $id $tier 2>&1); rc=$?
  t1=$(date +%s)
  echo "$id $tier seed=$seed exit=$rc wall=$((t1-t0))s :: $(echo "$out" | grep -E "^(VIOLATION|KNOWN-FINDING|C[0-9]+ (quick|thorough):)" | tr '\n' ' ' | cut -c1-400)"
  if [ $rc -ne 0 ]; then echo "$out" | tail -15 | sed 's/^/    /'; fi
done
