#!/usr/bin/env python3
"""seedcheck.py <seed-name> [--verify] [--checks C01,C02] [--tier quick]

Applies /verif/seeded/<seed-name>/patch.diff to a scratch worktree of /repo
(outside /repo and /verif), and
  --verify : confirms that the change compiles, passes the repository's own
             test suite, makes demo_test.go fail, and that the demo passes
             without the change;
  --checks : runs the listed checks (default: the seed's own property) against
             the scratch worktree through VERIF_REPO and reports the exit codes.
The worktree is removed afterwards. Results are appended to
/verif/seeded/<seed-name>/runs.json.
"""
import json, os, subprocess, sys, shutil, time

ROOT = os.path.dirname(os.path.dirname(os.path.abspath(__file__)))
ENV = dict(os.environ, GOFLAGS="-mod=mod", GOPROXY="off", GOSUMDB="off", GOTOOLCHAIN="local")


def sh(cmd, cwd=None, env=None, timeout=3600):
    p = subprocess.run(cmd, shell=True, cwd=cwd, env=env or ENV, stdout=subprocess.PIPE, stderr=subprocess.STDOUT, text=True, timeout=timeout)
    return p.returncode, p.stdout


def main():
    args = sys.argv[1:]
    name = args[0]
    verify = "--verify" in args
    tier = "quick"
    checks = None
    for i, a in enumerate(args):
        if a == "--checks":
            checks = args[i + 1].split(",")
        if a == "--tier":
            tier = args[i + 1]
    sdir = os.path.join(ROOT, "seeded", name)
    meta = json.load(open(os.path.join(sdir, "meta.json")))
    prop = meta.get("property", name.split("-")[0])
    if checks is None:
        checks = [prop]
    wt = "/tmp/wt/seedcheck-%s-%d" % (name, os.getpid())
    os.makedirs("/tmp/wt", exist_ok=True)
    rc, out = sh("git -C /repo worktree add -q --detach %s HEAD" % wt)
    if rc != 0:
        print("cannot create worktree:", out)
        sys.exit(2)
    result = {"seed": name, "at": time.strftime("%Y-%m-%dT%H:%M:%S"), "repo_head": sh("git -C /repo rev-parse --short HEAD")[1].strip()}
    try:
        demo = os.path.join(sdir, "demo_test.go")
        if verify:
            shutil.copy(demo, os.path.join(wt, "zz_seed_demo_test.go"))
            rc, out = sh("go test -count=1 -run TestSeedDemo .", cwd=wt)
            result["demo_passes_without_patch"] = rc == 0
            os.remove(os.path.join(wt, "zz_seed_demo_test.go"))
        rc, out = sh("git apply --whitespace=nowarn %s" % os.path.join(sdir, "patch.diff"), cwd=wt)
        if rc != 0:
            rc, out = sh("git apply --3way --whitespace=nowarn %s" % os.path.join(sdir, "patch.diff"), cwd=wt)
        result["applies"] = rc == 0
        if rc != 0:
            result["apply_output"] = out[-800:]
            print(json.dumps(result, indent=1))
            return
        if verify:
            rc, out = sh("go build ./... && go test -count=1 ./...", cwd=wt)
            result["suite_passes_with_patch"] = rc == 0
            if rc != 0:
                result["suite_output"] = out[-1500:]
            shutil.copy(demo, os.path.join(wt, "zz_seed_demo_test.go"))
            rc, out = sh("go test -count=1 -run TestSeedDemo .", cwd=wt)
            result["demo_fails_with_patch"] = rc != 0
            os.remove(os.path.join(wt, "zz_seed_demo_test.go"))
        det = {}
        for c in checks:
            env = dict(ENV, VERIF_REPO=wt)
            t0 = time.time()
            rc, out = sh("%s %s %s" % (os.path.join(ROOT, "bin", "check"), c, tier), cwd=ROOT, env=env)
            viol = [l for l in out.splitlines() if l.startswith("VIOLATION")]
            det[c] = {"exit": rc, "violations": len(viol), "wall_s": round(time.time() - t0, 1), "first": (out.splitlines()[-1] if rc == 2 else (viol[0] if viol else ""))[:300]}
            if rc == 1:
                # show the message line following the first violation
                lines = out.splitlines()
                for i, l in enumerate(lines):
                    if l.startswith("VIOLATION") and i + 1 < len(lines):
                        det[c]["msg"] = lines[i + 1].strip()[:300]
                        break
        result["checks"] = det
        result["tier"] = tier
    finally:
        sh("git -C /repo worktree remove --force %s" % wt)
        sh("git -C /repo worktree prune")
    print(json.dumps(result, indent=1))
    runs = os.path.join(sdir, "runs.json")
    hist = []
    if os.path.exists(runs):
        try:
            hist = json.load(open(runs))
        except ValueError:
            hist = []
    hist.append(result)
    json.dump(hist, open(runs, "w"), indent=1)


if __name__ == "__main__":
    main()
