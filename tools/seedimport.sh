#!/bin/sh
# seedimport.sh [-P n] <srcdir> — copy finished seeds from <srcdir>/<ID>/<v>/ to seeded/<ID>-<v>/ (if new), then verify + run them (n at a time, default 5)
root=$(dirname "$(dirname "$(readlink -f "$0")")")
par=5
if [ "$1" = "-P" ]; then par=$2; shift 2; fi
src=${1:-/tmp/seed2}
new=""
for d in "$src"/C*/[a-z]; do
  [ -f "$d/meta.json" ] && [ -f "$d/patch.diff" ] && [ -f "$d/demo_test.go" ] || continue
  id=$(basename "$(dirname "$d")"); v=$(basename "$d"); name="$id-$v"
  [ -d "$root/seeded/$name" ] && continue
  mkdir -p "$root/seeded/$name"
  cp "$d/meta.json" "$d/patch.diff" "$d/demo_test.go" "$root/seeded/$name/"
  new="$new $name"
done
echo $new | tr ' ' '\n' | grep . | xargs -P "$par" -I{} sh -c "\"$root/tools/seedsum.sh\" {} --verify 2>&1 | tail -1 | cut -c1-330"
