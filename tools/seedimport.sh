#!/bin/sh
# seedimport.sh <srcdir> — copy finished seeds from <srcdir>/<ID>/<v>/ to seeded/<ID>-<v>/ (if new) and verify + run them
root=$(dirname "$(dirname "$(readlink -f "$0")")")
src=${1:-/tmp/seed2}
for d in "$src"/C*/[a-z]; do
  [ -f "$d/meta.json" ] && [ -f "$d/patch.diff" ] && [ -f "$d/demo_test.go" ] || continue
  id=$(basename "$(dirname "$d")"); v=$(basename "$d"); name="$id-$v"
  [ -d "$root/seeded/$name" ] && continue
  mkdir -p "$root/seeded/$name"
  cp "$d/meta.json" "$d/patch.diff" "$d/demo_test.go" "$root/seeded/$name/"
  "$root/tools/seedsum.sh" "$name" --verify 2>&1 | tail -1
done
