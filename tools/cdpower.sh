#!/bin/sh
# cdpower.sh — how many seeded changes does the chaotic differential alone catch? (information only)
root=$(dirname "$(dirname "$(readlink -f "$0")")")
for d in "$root"/seeded/C*; do
  name=$(basename "$d"); id=${name%%-*}
  case $id in C01|C02|C03|C12|C13|C14|C15|C16) ;; *) continue;; esac
  wt=/tmp/wt/cdp-$name
  git -C /repo worktree add -q --detach $wt HEAD 2>/dev/null || continue
  if git -C $wt apply --whitespace=nowarn "$d/patch.diff" 2>/dev/null; then
    out=$(VERIF_REPO=$wt VERIF_ONLY="^Test${id}_ChaoticDifferential\$" "$root/bin/check" $id quick 2>&1); rc=$?
    echo "$name exit=$rc $(echo "$out" | grep -A1 '^VIOLATION' | tail -1 | cut -c1-160)"
  else
    echo "$name does-not-apply"
  fi
  git -C /repo worktree remove --force $wt; git -C /repo worktree prune
done
