#!/usr/bin/env python3
"""handmut.py [name ...]   — sensitivity test of the checks (DESIGN.md section 4).

Applies each hand-made mutant of tools/handmutants.json (all, or the named
ones) to a scratch worktree of /repo, confirms that it builds and whether the
repository's own suite still passes, runs the listed checks against the
scratch tree (VERIF_REPO) and records exit codes and time-to-detect in
tools/handmutants_results.json. The worktree is removed afterwards.

A mutant is {"name", "file", "old", "new", "checks": ["C01", ...], "note"}.
"""
import json, os, subprocess, sys, time

ROOT = os.path.dirname(os.path.dirname(os.path.abspath(__file__)))
ENV = dict(os.environ, GOFLAGS="-mod=mod", GOPROXY="off", GOSUMDB="off", GOTOOLCHAIN="local")


def sh(cmd, cwd=None, env=None):
    p = subprocess.run(cmd, shell=True, cwd=cwd, env=env or ENV, stdout=subprocess.PIPE, stderr=subprocess.STDOUT, text=True)
    return p.returncode, p.stdout


def main():
    muts = json.load(open(os.path.join(ROOT, "tools", "handmutants.json")))
    want = set(sys.argv[1:])
    resf = os.environ.get("HANDMUT_OUT") or os.path.join(ROOT, "tools", "handmutants_results.json")
    results = {}
    if os.path.exists(resf):
        results = json.load(open(resf))
    for m in muts:
        if want and m["name"] not in want:
            continue
        wt = "/tmp/wt/handmut-%d" % os.getpid()
        sh("git -C /repo worktree add -q --detach %s HEAD" % wt)
        try:
            path = os.path.join(wt, m["file"])
            src = open(path).read()
            if src.count(m["old"]) < 1:
                print(m["name"], "OLD TEXT NOT FOUND")
                continue
            open(path, "w").write(src.replace(m["old"], m["new"], 1))
            rc, out = sh("go build ./...", cwd=wt)
            if rc != 0:
                print(m["name"], "DOES NOT BUILD", out[-300:])
                continue
            rc, out = sh("go test -count=1 ./...", cwd=wt)
            suite = rc == 0
            res = {"suite_passes": suite, "checks": {}, "repo_head": sh("git -C /repo rev-parse --short HEAD")[1].strip()}
            for c in m["checks"]:
                t0 = time.time()
                rc, out = sh("%s %s quick" % (os.path.join(ROOT, "bin", "check"), c), cwd=ROOT, env=dict(ENV, VERIF_REPO=wt))
                msg = ""
                lines = out.splitlines()
                for i, l in enumerate(lines):
                    if l.startswith("VIOLATION") and i + 1 < len(lines):
                        msg = lines[i + 1].strip()[:200]
                        break
                res["checks"][c] = {"exit": rc, "wall_s": round(time.time() - t0, 1), "msg": msg}
            results[m["name"]] = res
            print(m["name"], "suite_passes=%s" % suite, {c: (v["exit"], v["wall_s"], v["msg"][:110]) for c, v in res["checks"].items()})
        finally:
            sh("git -C /repo worktree remove --force %s" % wt)
            sh("git -C /repo worktree prune")
    json.dump(results, open(resf, "w"), indent=1)


if __name__ == "__main__":
    main()
