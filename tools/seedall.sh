#!/bin/sh
# seedall.sh [--verify] — run every seeded change against its property's quick check, one after the other
root=$(dirname "$(dirname "$(readlink -f "$0")")")
for d in "$root"/seeded/C*; do
  "$root/tools/seedsum.sh" "$(basename "$d")" "$@" 2>&1 | tail -1 | cut -c1-300
done
