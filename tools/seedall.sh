#!/bin/sh
# seedall.sh [-P n] [seedcheck args] — run every seeded change against its property's quick check (n at a time, default 4)
root=$(dirname "$(dirname "$(readlink -f "$0")")")
par=4
if [ "$1" = "-P" ]; then par=$2; shift 2; fi
ls "$root/seeded" | xargs -P "$par" -I{} sh -c "\"$root/tools/seedsum.sh\" {} $* 2>&1 | tail -1 | cut -c1-300"
