#!/usr/bin/env python3
"""Regenerates MANIFEST.json from tools/manifest_src.json (claimed checks) and
properties.jsonl (every property not claimed is listed under not_applicable)."""
import json, os
ROOT = os.path.dirname(os.path.dirname(os.path.abspath(__file__)))
src = json.load(open(os.path.join(ROOT, "tools", "manifest_src.json")))
props = [json.loads(l) for l in open(os.path.join(ROOT, "properties.jsonl")) if l.strip()]
checks, na = [], []
for p in props:
    pid = p["id"]
    c = src["checks"].get(pid)
    if not c:
        na.append({"property_id": pid, "reason": src.get("not_applicable", {}).get(pid, "check not built yet (work in progress); the technique applies, see DESIGN.md section 3")})
        continue
    entry = {
        "property_id": pid,
        "quick_cmd": "bin/check %s quick" % pid,
        "thorough_cmd": "bin/check %s thorough" % pid,
        "evidence_file": "/verif/evidence/%s.json" % pid,
        "replay_cmd_template": "bin/check %s --replay {path}" % pid,
        "engine": "harness",
        "level_claimed": {"category": "exploration", "text": c["level_text"], "design_ref": c.get("design_ref", "DESIGN.md section 3, " + pid)},
        "level_note": c["level_note"],
        "technique": c["technique"],
    }
    checks.append(entry)
m = {
    "version": 1,
    "setup_cmd": "bin/setup",
    "hooks": src["hooks"],
    "engines": [{"name": "harness", "path": "/verif/harness", "serves_properties": sorted(src["checks"].keys()),
                 "kind_free_text": "Go test binary (pgregory.net/rapid v1.3.0 generators + exhaustive small-scope enumeration + native go fuzzing in the thorough tier) driven by bin/check; module replace => /repo so every run rebuilds from /repo's working tree"}],
    "checks": checks,
    "notes": src["notes"],
    "not_applicable": na,
}
json.dump(m, open(os.path.join(ROOT, "MANIFEST.json"), "w"), indent=1, ensure_ascii=False)
print("claimed:", len(checks), "not_applicable:", len(na))
