#!/bin/sh
# seedsum.sh <seed> [seedcheck args] : one-line summary of a seedcheck run
cd "$(dirname "$0")/.."
tools/seedcheck.py "$@" 2>&1 | python3 -c "
import json,sys
t=sys.stdin.read()
try:
    d=json.loads(t)
except ValueError:
    print('UNPARSEABLE', t[-400:]); sys.exit(0)
print(d['seed'], 'applies',d.get('applies'),'suite',d.get('suite_passes_with_patch'),'demoFailsWith',d.get('demo_fails_with_patch'),'demoPassesWithout',d.get('demo_passes_without_patch'), {k:(v['exit'],v['wall_s'],v.get('msg','')[:140] or v.get('first','')[:140]) for k,v in d.get('checks',{}).items()}, d.get('apply_output','')[:200])"
