package checks

// C19, clock clause under overlapping evaluations: "within one evaluation
// every $now() and $millis() denotes one and the same instant, which lies
// between the wall-clock times at which Eval was entered and left" — also when
// other evaluations of the same Expr start in the meantime (from other
// goroutines, or re-entrantly from an extension function).

import (
	"encoding/json"
	"fmt"
	"sync"
	"sync/atomic"
	"testing"
	"time"

	jsonata "github.com/blues/jsonata-go"

	"verif/harness/internal/val"
)

type c19Clock struct {
	Mode       string `json:"mode"` // concurrent | reentrant | sequential
	Goroutines int    `json:"goroutines"`
	Rounds     int    `json:"rounds"`
	PauseMs    int    `json:"pause_ms"`
}

const c19ClockText = `[$millis(), $toMillis($now()), $pause(), $millis(), $toMillis($now()), $toMillis($now("[Y0001]-[M01]-[D01]T[H01]:[m01]:[s01].[f001][Z01:01]", "-0330"), "[Y0001]-[M01]-[D01]T[H01]:[m01]:[s01].[f001][Z01:01]")]`

func c19ClockRun(c c19Clock) string {
	e, err := jsonata.Compile(c19ClockText)
	if err != nil {
		return "harness: " + err.Error()
	}
	var depth int32
	pause := func() (float64, error) {
		time.Sleep(time.Duration(c.PauseMs) * time.Millisecond)
		if c.Mode == "reentrant" && atomic.AddInt32(&depth, 1) == 1 {
			// a nested evaluation of the same expression
			_, err := e.Eval(nil)
			atomic.AddInt32(&depth, -1)
			if err != nil {
				return 0, err
			}
			time.Sleep(time.Duration(c.PauseMs) * time.Millisecond)
			return 0, nil
		}
		if c.Mode == "reentrant" {
			atomic.AddInt32(&depth, -1)
		}
		return 0, nil
	}
	if err := e.RegisterExts(map[string]jsonata.Extension{"pause": {Func: pause}}); err != nil {
		return "harness: " + err.Error()
	}
	one := func() string {
		before := time.Now()
		res, err := e.Eval(nil)
		after := time.Now()
		if err != nil {
			return "clock expression failed: " + err.Error()
		}
		v, verr := val.FromGo(res)
		if verr != nil || v.K != val.Arr || len(v.A) != 6 {
			return fmt.Sprintf("clock expression gave %v", res)
		}
		a := v.A
		if a[0].N != a[1].N || a[0].N != a[3].N || a[0].N != a[4].N || a[0].N != a[5].N {
			return fmt.Sprintf("$millis()/$now() denote different instants within one evaluation (another evaluation of the same Expr started in between): [%.0f, %.0f, pause, %.0f, %.0f, %.0f]", a[0].N, a[1].N, a[3].N, a[4].N, a[5].N)
		}
		if !after.Before(before) && (a[0].N < float64(before.UnixMilli()) || a[0].N > float64(after.UnixMilli())) {
			return fmt.Sprintf("$millis() = %.0f lies outside [%d, %d], the wall-clock times around Eval", a[0].N, before.UnixMilli(), after.UnixMilli())
		}
		return ""
	}
	g := c.Goroutines
	if c.Mode != "concurrent" {
		g = 1
	}
	var wg sync.WaitGroup
	var mu sync.Mutex
	first := ""
	for i := 0; i < g; i++ {
		wg.Add(1)
		go func(i int) {
			defer wg.Done()
			// staggered starts so that evaluations overlap at different phases
			time.Sleep(time.Duration(i) * 700 * time.Microsecond)
			for r := 0; r < c.Rounds; r++ {
				if m := one(); m != "" {
					mu.Lock()
					if first == "" {
						first = m
					}
					mu.Unlock()
					return
				}
			}
		}(i)
	}
	wg.Wait()
	return first
}

func init() {
	registerReplay("TestC19_Clock", func(raw json.RawMessage) string {
		var c c19Clock
		if err := json.Unmarshal(raw, &c); err != nil {
			return "bad case: " + err.Error()
		}
		return c19ClockRun(c)
	})
}

// TestC19_Clock: the clock clause under sequential, concurrent and re-entrant
// evaluations of one compiled expression.
func TestC19_Clock(t *testing.T) {
	rec := begin(t, "C19", "clock clause: one compiled expression reading $millis()/$now() before and after an extension function that sleeps 1..4 ms, evaluated sequentially, by 2..8 goroutines with staggered starts, and re-entrantly (the extension evaluates the same Expr); every evaluation must see one instant inside its own [entered, left] wall-clock interval; non-trivial = overlapping evaluations (concurrent or re-entrant); distinct by configuration")
	defer finish(t, rec)
	var cases []c19Clock
	for _, p := range []int{1, 2, 4} {
		cases = append(cases, c19Clock{Mode: "sequential", Goroutines: 1, Rounds: 5, PauseMs: p})
		cases = append(cases, c19Clock{Mode: "reentrant", Goroutines: 1, Rounds: 4, PauseMs: p})
		for _, g := range []int{2, 4, 8} {
			cases = append(cases, c19Clock{Mode: "concurrent", Goroutines: g, Rounds: 4, PauseMs: p})
		}
	}
	for _, c := range cases {
		m := c19ClockRun(c)
		rec.Case(string(mustJSON(c)), c.Mode != "sequential", func() interface{} { return c })
		n := c.Rounds
		if c.Mode == "concurrent" {
			n *= c.Goroutines
		}
		rec.Eval(n - 1)
		rec.Class(c.Mode)
		if m != "" && rec.FailNow(c, m) >= 3 {
			return
		}
	}
}
