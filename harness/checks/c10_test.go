package checks

// C10 — Results are JSON-representable; ErrUndefined iff no value; EvalBytes
// agrees. Oracles: a strict type walk over Eval's result, json.Marshal,
// Eval-vs-EvalBytes agreement through encoding/json, and the metamorphic pair
// "$exists(E) is false  <=>  E reports ErrUndefined".

import (
	"encoding/json"
	"fmt"
	"math"
	"reflect"
	"strings"
	"testing"

	jsonata "github.com/blues/jsonata-go"
	"pgregory.net/rapid"

	"verif/harness/internal/ast"
	"verif/harness/internal/gen"
	"verif/harness/internal/port"
	"verif/harness/internal/stats"
	"verif/harness/internal/val"
)

// strictWalk accepts only nil, (*interface{})(nil), booleans, finite numbers of
// any Go numeric kind, strings, slices/arrays, string-keyed maps and values
// with Call/ParamCount/Name methods (functions, which marshal as ""). It
// returns a description of the first offending value.
func strictWalk(v reflect.Value, depth int) string {
	if depth > 100 {
		return "nested deeper than 100 levels (cyclic?)"
	}
	if !v.IsValid() {
		return ""
	}
	t := v.Type()
	if _, ok := t.MethodByName("Call"); ok {
		if _, ok2 := t.MethodByName("ParamCount"); ok2 {
			if t.Kind() == reflect.Ptr && v.IsNil() {
				return "nil function pointer of type " + t.String()
			}
			return ""
		}
	}
	switch v.Kind() {
	case reflect.Interface:
		if v.IsNil() {
			return ""
		}
		return strictWalk(v.Elem(), depth+1)
	case reflect.Ptr:
		if v.IsNil() && t.Elem().Kind() == reflect.Interface {
			return ""
		}
		return "pointer of type " + t.String()
	case reflect.Bool, reflect.String:
		return ""
	case reflect.Float32, reflect.Float64:
		if f := v.Float(); math.IsNaN(f) || math.IsInf(f, 0) {
			return fmt.Sprintf("non-finite number %v", f)
		}
		return ""
	case reflect.Int, reflect.Int8, reflect.Int16, reflect.Int32, reflect.Int64, reflect.Uint, reflect.Uint8, reflect.Uint16, reflect.Uint32, reflect.Uint64:
		return ""
	case reflect.Slice, reflect.Array:
		if v.Kind() == reflect.Slice && v.IsNil() {
			// an array to the evaluator, null to json.Marshal: not one JSON value
			return "nil slice of type " + t.String() + " (an array that is encoded as null)"
		}
		for i := 0; i < v.Len(); i++ {
			if m := strictWalk(v.Index(i), depth+1); m != "" {
				return m
			}
		}
		return ""
	case reflect.Map:
		if t.Key().Kind() != reflect.String {
			return "map with key type " + t.Key().String()
		}
		if v.IsNil() {
			return "nil map of type " + t.String() + " (an object that is encoded as null)"
		}
		it := v.MapRange()
		for it.Next() {
			if m := strictWalk(it.Value(), depth+1); m != "" {
				return m
			}
		}
		return ""
	}
	return "value of type " + t.String()
}

// plainJSON rebuilds a result from plain Go values (float64, string, bool,
// nil, []interface{}, map[string]interface{}), a function value becoming "".
func plainJSON(v reflect.Value, depth int) (interface{}, bool) {
	if depth > 100 {
		return nil, false
	}
	if !v.IsValid() {
		return nil, true
	}
	t := v.Type()
	if _, ok := t.MethodByName("Call"); ok {
		if _, ok2 := t.MethodByName("ParamCount"); ok2 {
			return "", true
		}
	}
	switch v.Kind() {
	case reflect.Interface:
		if v.IsNil() {
			return nil, true
		}
		return plainJSON(v.Elem(), depth+1)
	case reflect.Ptr:
		if v.IsNil() {
			return nil, true
		}
		return nil, false
	case reflect.Bool:
		return v.Bool(), true
	case reflect.String:
		return v.String(), true
	case reflect.Float32, reflect.Float64:
		return v.Float(), true
	case reflect.Int, reflect.Int8, reflect.Int16, reflect.Int32, reflect.Int64:
		return float64(v.Int()), true
	case reflect.Uint, reflect.Uint8, reflect.Uint16, reflect.Uint32, reflect.Uint64:
		return float64(v.Uint()), true
	case reflect.Slice, reflect.Array:
		if v.Kind() == reflect.Slice && t.Elem().Kind() == reflect.Uint8 {
			return nil, false // []byte has its own encoding
		}
		out := make([]interface{}, v.Len())
		for i := range out {
			x, ok := plainJSON(v.Index(i), depth+1)
			if !ok {
				return nil, false
			}
			out[i] = x
		}
		return out, true
	case reflect.Map:
		if t.Key().Kind() != reflect.String {
			return nil, false
		}
		out := map[string]interface{}{}
		it := v.MapRange()
		for it.Next() {
			x, ok := plainJSON(it.Value(), depth+1)
			if !ok {
				return nil, false
			}
			out[it.Key().String()] = x
		}
		return out, true
	}
	return nil, false
}

type c10Case struct {
	Text  string `json:"text"`
	Input string `json:"input"`
	Det   bool   `json:"deterministic"` // no $random/$shuffle/$now/$millis: Eval and EvalBytes must agree exactly
}

var nondetBuiltins = map[string]bool{"random": true, "shuffle": true, "now": true, "millis": true}

// orderExposing: constructs whose result order (and, after an index or
// filter, value) depends on Go's unspecified map iteration order.
var orderExposing = map[string]bool{"keys": true, "each": true, "spread": true, "sift": true, "merge": true, "lookup": true}

// isDeterministic: two evaluations of the program must give the same outcome —
// no $random/$shuffle/$now/$millis and nothing that exposes map order
// (wildcards, descendants, object iteration functions, grouping/constructors
// with several failing members).
func isDeterministic(prog *ast.Node) bool {
	return !prog.Has(func(n *ast.Node) bool {
		switch n.K {
		case ast.Var:
			return nondetBuiltins[n.S] || orderExposing[n.S]
		case ast.Wild, ast.Desc:
			return true
		case ast.Obj:
			return len(n.C) > 2
		case ast.Group:
			return true
		}
		return false
	})
}

func evalRaw(e *jsonata.Expr, in interface{}) (res interface{}, err error, panicked string) {
	defer func() {
		if r := recover(); r != nil {
			panicked = fmt.Sprint(r)
		}
	}()
	res, err = e.Eval(in)
	return
}

func evalBytesRaw(e *jsonata.Expr, in []byte) (res []byte, err error, panicked string) {
	defer func() {
		if r := recover(); r != nil {
			panicked = fmt.Sprint(r)
		}
	}()
	res, err = e.EvalBytes(in)
	return
}

type c10Info struct {
	kind      string
	container bool
}

// c10Run checks one case; "" = holds. Panics are C09's business and skipped here.
func c10Run(c c10Case) (string, c10Info) {
	info := c10Info{}
	e, o := port.Compile(c.Text)
	if o != nil {
		info.kind = o.Kind
		return "", info
	}
	input := c.Input
	if input == "" {
		input = "null"
	}
	in, err := port.DecodeJSON(input)
	if err != nil {
		return "", c10Info{kind: "bad_input"}
	}
	res, eerr, p := evalRaw(e, in)
	if p != "" {
		info.kind = port.KPanic
		return "", info
	}
	if eerr == nil {
		info.kind = port.KValue
		// (a) only JSON-representable values
		if m := strictWalk(reflect.ValueOf(res), 0); m != "" {
			return "Eval returned a nil error with a result that is not JSON-representable: " + m, info
		}
		// (b) it can be marshalled
		enc, merr := json.Marshal(res)
		if merr != nil {
			return "json.Marshal of Eval's result fails: " + merr.Error(), info
		}
		// (b') the encoding is the JSON value the result stands for, function
		// values standing for empty strings
		if want, ok := plainJSON(reflect.ValueOf(res), 0); ok {
			wenc, _ := json.Marshal(want)
			var a, b interface{}
			if json.Unmarshal(enc, &a) != nil || json.Unmarshal(wenc, &b) != nil || !reflect.DeepEqual(a, b) {
				return fmt.Sprintf("Eval's result marshals to %s; with function values standing for empty strings it denotes %s", enc, wenc), info
			}
		}
		k := reflect.ValueOf(res).Kind()
		info.container = k == reflect.Slice || k == reflect.Map
	} else if eerr == jsonata.ErrUndefined {
		info.kind = port.KUndefined
	} else {
		info.kind = port.KError
	}
	if !c.Det {
		return "", info
	}
	// (c) EvalBytes succeeds exactly when Eval on the decoded input succeeds and
	// returns the JSON encoding of the same value
	e2, _ := port.Compile(c.Text)
	out, berr, p := evalBytesRaw(e2, []byte(input))
	if p != "" {
		return "", info
	}
	if (berr == nil) != (eerr == nil) {
		return fmt.Sprintf("Eval error %v but EvalBytes error %v", eerr, berr), info
	}
	if berr == nil {
		// the returned bytes are the caller's: later calls must not change them
		keep := append([]byte{}, out...)
		if e4, o4 := port.Compile(`{"another": "result", "of": [$, "a quite different length"]}`); o4 == nil {
			evalBytesRaw(e4, []byte(`"x"`))
			evalBytesRaw(e2, []byte(`{"a":[1,2,3],"b":"bbbbbbbbbbbbbbbbbbbbbbbbbbbbbbbbbbbbbbbbbbbbbbbbbbbbbbbbbbbbbbbb"}`))
			evalBytesRaw(e4, []byte(`[]`))
		}
		if string(keep) != string(out) {
			return fmt.Sprintf("the bytes returned by EvalBytes changed from %q to %q after later EvalBytes calls", keep, out), info
		}
	}
	if eerr == nil {
		want, _ := json.Marshal(res)
		var a, b interface{}
		if json.Unmarshal(out, &a) != nil {
			return fmt.Sprintf("EvalBytes returned invalid JSON %q", out), info
		}
		json.Unmarshal(want, &b)
		if !reflect.DeepEqual(a, b) {
			return fmt.Sprintf("EvalBytes returned %s, json.Marshal(Eval) is %s", out, want), info
		}
	} else if (berr == jsonata.ErrUndefined) != (eerr == jsonata.ErrUndefined) {
		return fmt.Sprintf("Eval error %v but EvalBytes error %v", eerr, berr), info
	}
	// (d) $exists(E) is false <=> E reports ErrUndefined (two observation routes)
	if e3, o3 := port.Compile("$exists(" + c.Text + ")"); o3 == nil {
		in3, _ := port.DecodeJSON(input)
		ex := port.Eval(e3, in3)
		switch {
		case ex.Kind == port.KPanic:
		case eerr == jsonata.ErrUndefined:
			if !(ex.Kind == port.KValue && ex.Val.K == val.Bool && !ex.Val.B) {
				return "E reports ErrUndefined but $exists(E) is " + ex.String(), info
			}
		case eerr == nil:
			if !(ex.Kind == port.KValue && ex.Val.K == val.Bool && ex.Val.B) {
				return "E yields a value but $exists(E) is " + ex.String(), info
			}
		default:
			if ex.Kind != port.KError {
				return fmt.Sprintf("E fails with %v but $exists(E) is %s", eerr, ex.String()), info
			}
		}
	}
	return "", info
}

func init() {
	replay := func(raw json.RawMessage) string {
		var c c10Case
		if err := json.Unmarshal(raw, &c); err != nil {
			return "bad case: " + err.Error()
		}
		m, _ := c10Run(c)
		return m
	}
	registerReplay("TestC10_Chaotic", replay)
	registerReplay("TestC10_Findings", replay)
	registerReplay("TestC10_MalformedInput", func(raw json.RawMessage) string {
		var c c10Bytes
		if err := json.Unmarshal(raw, &c); err != nil {
			return "bad case: " + err.Error()
		}
		return c10BytesRun(c)
	})
}

// TestC10_Chaotic: type-chaotic programs over generated documents.
func TestC10_Chaotic(t *testing.T) {
	rec := begin(t, "C10", "rapid: type-chaotic programs (as C09, in-process) over generated JSON documents; non-trivial = the program compiled, has >= 3 AST nodes with a call/path/predicate, and produced a value or 'no value' (not an error); distinct by program text + input")
	defer finish(t, rec)
	progs := gen.Chaotic(gen.ChaoticOpts{MaxDepth: 5})
	docs := c09Docs()
	rapidRun(t, rec, 40000, 600000, func(rt *rapid.T) {
		prog := ast.Normalize(progs.Draw(rt, "prog"))
		c := c10Case{Text: ast.Print(prog), Input: val.JSON(docs.Draw(rt, "doc")), Det: isDeterministic(prog)}
		m, info := c10Run(c)
		nt := c09Nontrivial(prog) && (info.kind == port.KValue || info.kind == port.KUndefined)
		rec.Case(c.Text+"|"+c.Input, nt, func() interface{} {
			return map[string]interface{}{"expr": c.Text, "input": c.Input, "outcome": info.kind}
		})
		rec.Class("outcome_" + info.kind)
		if info.container {
			rec.Class("container_result")
		}
		if c.Det {
			rec.Class("evalbytes_compared")
		}
		if m != "" && rec.Fail(c, m) {
			rt.Fatalf("%s\n  expr: %s\n  input: %s", m, c.Text, c.Input)
		}
	})
	n := rec.Evaluations()
	if n > 2000 && rec.ClassCount("outcome_"+port.KValue)*100 < n*20 {
		rec.Fatal("generator regression: fewer than 20% of programs yield a value")
	}
}

type c10Bytes struct {
	Expr  string `json:"expr"`
	Input string `json:"input"` // raw bytes as a Go-quoted string
}

func c10BytesRun(c c10Bytes) string {
	raw, err := unquoteBytes(c.Input)
	if err != nil {
		return ""
	}
	e, o := port.Compile(c.Expr)
	if o != nil {
		return "harness: " + o.String()
	}
	var decoded interface{}
	uerr := json.Unmarshal(raw, &decoded)
	out, berr, p := evalBytesRaw(e, raw)
	if p != "" {
		return "EvalBytes panicked: " + p
	}
	if uerr != nil {
		if berr == nil {
			return fmt.Sprintf("input is not valid JSON (%v) but EvalBytes returned %s", uerr, out)
		}
		return ""
	}
	res, eerr, p := evalRaw(e, decoded)
	if p != "" {
		return ""
	}
	if (eerr == nil) != (berr == nil) {
		return fmt.Sprintf("Eval error %v but EvalBytes error %v", eerr, berr)
	}
	if eerr == nil {
		want, _ := json.Marshal(res)
		var a, b interface{}
		if json.Unmarshal(out, &a) != nil {
			return fmt.Sprintf("EvalBytes returned invalid JSON %q", out)
		}
		json.Unmarshal(want, &b)
		if !reflect.DeepEqual(a, b) {
			return fmt.Sprintf("EvalBytes returned %s, json.Marshal(Eval) is %s", out, want)
		}
	}
	return ""
}

func unquoteBytes(s string) ([]byte, error) {
	var out string
	_, err := fmt.Sscanf(s, "%q", &out)
	return []byte(out), err
}

// TestC10_MalformedInput: EvalBytes rejects input that is not valid JSON and
// agrees with Eval otherwise.
func TestC10_MalformedInput(t *testing.T) {
	rec := begin(t, "C10", "rapid: input byte strings for EvalBytes — valid JSON texts, and the same truncated, with trailing garbage, with invalid UTF-8, bare words — under total programs; non-trivial = input of >= 2 bytes; distinct by program + input bytes")
	defer finish(t, rec)
	docs := c09Docs()
	exprs := []string{"$", "1", "$count($)", "[$]", "$string($)", "$.a", "a.b", "$[0]"}
	rapidRun(t, rec, 20000, 300000, func(rt *rapid.T) {
		base := val.JSON(docs.Draw(rt, "doc"))
		var raw string
		switch rapid.IntRange(0, 7).Draw(rt, "mut") {
		case 0:
			raw = base
		case 1:
			raw = base[:rapid.IntRange(0, len(base)).Draw(rt, "cut")]
		case 2:
			raw = base + rapid.SampledFrom([]string{" x", "}", "]", ",", " 1", "null", "\x00", " \n\t "}).Draw(rt, "tail")
		case 3:
			raw = rapid.SampledFrom([]string{"", " ", "nul", "tru", "True", "NaN", "Infinity", "-", "1e", "01", "1.", ".5", "'a'", "\"a", "{a:1}", "[1,]", "{\"a\":1,}", "\"\\x\"", "\"\\ud800\"", "1 2", "[", "{", "\xff", "\"\xff\"", "1e999", "-0", "[[[[[[[[[[]]]]]]]]]]"}).Draw(rt, "word")
		case 4:
			raw = string(rapid.SliceOfN(rapid.Byte(), 0, 12).Draw(rt, "bytes"))
		case 5:
			pos := rapid.IntRange(0, len(base)).Draw(rt, "pos")
			raw = base[:pos] + rapid.SampledFrom([]string{"\xff", "\xc3", ",", "\"", "\\", "{", "1"}).Draw(rt, "ins") + base[pos:]
		case 6:
			raw = " \n" + base + "\t "
		default:
			raw = strings.ReplaceAll(base, ":", " :\n")
		}
		c := c10Bytes{Expr: rapid.SampledFrom(exprs).Draw(rt, "expr"), Input: fmt.Sprintf("%q", raw)}
		m := c10BytesRun(c)
		rec.Case(c.Expr+"|"+c.Input, len(raw) >= 2, func() interface{} { return c })
		if json.Valid([]byte(raw)) {
			rec.Class("valid_json")
		} else {
			rec.Class("invalid_json")
		}
		if m != "" && rec.Fail(c, m) {
			rt.Fatalf("%s\n  expr: %s\n  input: %s", m, c.Expr, c.Input)
		}
	})
	n := rec.Evaluations()
	if n > 2000 && (rec.ClassCount("valid_json")*10 < n || rec.ClassCount("invalid_json")*10 < n) {
		rec.Fatal("generator regression: valid/invalid JSON mix is off")
	}
}

var _ = stats.Root
