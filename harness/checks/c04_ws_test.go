package checks

// C04, "the parse does not depend on optional whitespace between tokens":
// expressions are generated as token lists from a small grammar (numbers,
// names, variables, strings, prefix minus, every binary operator, the
// conditional, parentheses, array constructors, calls, predicates, steps) and
// spelled in three layouts - one space between all tokens, no space wherever
// two tokens cannot run into each other, and newlines/tabs. All layouts must
// give the same tree (or the same kind of error); no reference parser is
// involved, the relation is between spellings.

import (
	"encoding/json"
	"fmt"
	"strings"
	"testing"

	"github.com/blues/jsonata-go/jparse"
	"pgregory.net/rapid"
)

type c04wsCase struct {
	Tokens []string `json:"tokens"`
}

func wordy(b byte) bool {
	return b == '_' || b == '$' || b == '`' || b == '"' || b == '\'' || (b >= '0' && b <= '9') || (b >= 'a' && b <= 'z') || (b >= 'A' && b <= 'Z')
}

func (c c04wsCase) spell(layout int) string {
	var sb strings.Builder
	for i, tk := range c.Tokens {
		if i > 0 {
			prev := c.Tokens[i-1]
			switch layout {
			case 0:
				sb.WriteByte(' ')
			case 1:
				a, b := prev[len(prev)-1], tk[0]
				// a space only where two tokens would merge: word against word, a
				// number against a step dot, and two dots
				if (wordy(a) && wordy(b)) || (a >= '0' && a <= '9' && b == '.') || (a == '.' && b >= '0' && b <= '9') || (a == '.' && b == '.') {
					sb.WriteByte(' ')
				}
			default:
				sb.WriteString([]string{"\n", "\t", "  ", " \n\t "}[i%4])
			}
		}
		sb.WriteString(tk)
	}
	return sb.String()
}

func c04wsRun(c c04wsCase) string {
	parse := func(s string) string {
		n, err := jparse.Parse(s)
		if err != nil {
			if e, ok := err.(*jparse.Error); ok {
				return fmt.Sprintf("error type %d", e.Type)
			}
			return "error " + err.Error()
		}
		return canonNode(n)
	}
	base := c.spell(0)
	want := parse(base)
	for layout := 1; layout <= 2; layout++ {
		s := c.spell(layout)
		if got := parse(s); got != want {
			return fmt.Sprintf("%q parses as %s, but %q (the same tokens, other whitespace) parses as %s", base, want, s, got)
		}
	}
	return ""
}

func init() {
	registerReplay("TestC04_WhitespaceInvariance", func(raw json.RawMessage) string {
		var c c04wsCase
		if err := json.Unmarshal(raw, &c); err != nil {
			return "bad case: " + err.Error()
		}
		return c04wsRun(c)
	})
}

type c04wsGen struct{ t *rapid.T }

func (g c04wsGen) primary(depth int) []string {
	k := rapid.IntRange(0, 11).Draw(g.t, "primary")
	if depth <= 0 && k >= 8 {
		k = k % 8
	}
	switch k {
	case 0, 1:
		return []string{rapid.SampledFrom([]string{"2", "10", "0.5", "1e2", "7"}).Draw(g.t, "num")}
	case 2, 3:
		return []string{rapid.SampledFrom([]string{"a", "b", "and", "or", "in", "`x y`"}).Draw(g.t, "name")}
	case 4, 5:
		return []string{rapid.SampledFrom([]string{"$v", "$", "$$", "$w1"}).Draw(g.t, "var")}
	case 6:
		return []string{rapid.SampledFrom([]string{`"s"`, `'t'`, `""`}).Draw(g.t, "str")}
	case 7:
		return []string{rapid.SampledFrom([]string{"true", "null"}).Draw(g.t, "lit")}
	case 8:
		return append(append([]string{"("}, g.expr(depth-1)...), ")")
	case 9:
		out := []string{"["}
		n := rapid.IntRange(0, 2).Draw(g.t, "items")
		for i := 0; i < n; i++ {
			if i > 0 {
				out = append(out, ",")
			}
			out = append(out, g.expr(depth-1)...)
		}
		return append(out, "]")
	case 10:
		out := []string{rapid.SampledFrom([]string{"$sum", "$f", "$count"}).Draw(g.t, "fn"), "("}
		n := rapid.IntRange(0, 2).Draw(g.t, "args")
		for i := 0; i < n; i++ {
			if i > 0 {
				out = append(out, ",")
			}
			out = append(out, g.expr(depth-1)...)
		}
		return append(out, ")")
	}
	return append(append([]string{"{", `"k"`, ":"}, g.expr(depth-1)...), "}")
}

func (g c04wsGen) unary(depth int) []string {
	var out []string
	for rapid.IntRange(0, 3).Draw(g.t, "minus") == 0 && len(out) < 2 {
		out = append(out, "-")
	}
	out = append(out, g.primary(depth)...)
	for rapid.IntRange(0, 4).Draw(g.t, "postfix") == 0 {
		if rapid.Bool().Draw(g.t, "step") {
			out = append(out, ".", rapid.SampledFrom([]string{"a", "b", "in"}).Draw(g.t, "stepName"))
		} else {
			out = append(append(append(out, "["), g.expr(depth-1)...), "]")
		}
	}
	return out
}

func (g c04wsGen) expr(depth int) []string {
	out := g.unary(depth)
	n := rapid.IntRange(0, 3).Draw(g.t, "ops")
	for i := 0; i < n; i++ {
		op := rapid.SampledFrom([]string{"*", "/", "%", "+", "-", "-", "&", "=", "!=", "<", "<=", ">", ">=", "and", "or", "in", "*", "/"}).Draw(g.t, "op")
		out = append(out, op)
		out = append(out, g.unary(depth)...)
	}
	if depth > 0 && rapid.IntRange(0, 7).Draw(g.t, "cond") == 0 {
		out = append(out, "?")
		out = append(out, g.expr(depth-1)...)
		out = append(out, ":")
		out = append(out, g.expr(depth-1)...)
	}
	return out
}

// TestC04_WhitespaceInvariance: the same tokens in three layouts.
func TestC04_WhitespaceInvariance(t *testing.T) {
	rec := begin(t, "C04", "rapid: token lists from a grammar of numbers, names (incl. and/or/in and back-quoted), variables, strings, prefix minus (single and doubled), 16 binary operators, the conditional, parentheses, array/object constructors, calls, predicates and steps, nesting depth <= 2, spelled with single spaces, with no space wherever two tokens cannot merge, and with newlines/tabs; oracle (metamorphic): all three spellings give the same canonical tree or the same error type; non-trivial = >= 2 operators or a prefix minus; distinct by token list")
	defer finish(t, rec)
	rapidRun(t, rec, 40000, 400000, func(rt *rapid.T) {
		g := c04wsGen{rt}
		c := c04wsCase{Tokens: g.expr(2)}
		m := c04wsRun(c)
		ops, minus := 0, false
		for i, tk := range c.Tokens {
			switch tk {
			case "*", "/", "%", "+", "&", "=", "!=", "<", "<=", ">", ">=", "and", "or", "in", "?":
				ops++
			case "-":
				if i == 0 || map[string]bool{"*": true, "/": true, "%": true, "+": true, "-": true, "&": true, "=": true, "!=": true, "<": true, "<=": true, ">": true, ">=": true, "and": true, "or": true, "in": true, "?": true, ":": true, "(": true, "[": true, ",": true, "{": true}[c.Tokens[i-1]] {
					minus = true
				} else {
					ops++
				}
			}
		}
		rec.Case(strings.Join(c.Tokens, " "), ops >= 2 || minus, func() interface{} { return map[string]interface{}{"spaced": c.spell(0), "tight": c.spell(1)} })
		if minus {
			rec.Class("prefix_minus")
		}
		if m != "" && rec.Fail(c, m) {
			rt.Fatalf("%s", m)
		}
	})
}
