package checks

// C09, functions used as data in pattern position: $split, $replace, $match
// and $contains accept a user-defined matcher function. Whatever object such a
// function returns - offsets outside the string, reversed, overlapping,
// fractional, of the wrong type, missing members, a `next` that is not a
// function or never ends - Eval must return through its results.

import (
	"encoding/json"
	"fmt"
	"testing"

	"verif/harness/internal/stats"
)

func init() {
	registerReplay("TestC09_CustomMatchers", func(raw json.RawMessage) string { return replayers["TestC09_Chaotic"](raw) })
}

func TestC09_CustomMatchers(t *testing.T) {
	rec := begin(t, "C09", "enumerated: user-defined matcher functions as the pattern of $split / $replace / $match / $contains, returning objects whose start/end offsets range over {-1, 0, 1, 2, 3, 10, 1e10, 1.5, \"1\", missing} (all pairs), with well-formed, missing and ill-typed match/groups/next members and chained second matches (overlapping, reversed, repeated); oracle: Eval returns (value, no value or error) - no panic, no hang; non-trivial = all; distinct by program")
	defer finish(t, rec)
	is := newIsolator()
	defer is.Close()
	rec.Matcher("F-E10", padHugeWidth)
	offs := []string{"-1", "0", "1", "2", "3", "10", "1e10", "1.5", `"1"`, ""}
	member := func(name, v string) string {
		if v == "" {
			return ""
		}
		return fmt.Sprintf(`"%s": %s, `, name, v)
	}
	var matchers []string
	for _, s := range offs {
		for _, e := range offs {
			matchers = append(matchers, fmt.Sprintf(`function($s){{"match": "x", %s%s"groups": [], "next": function(){$nothing}}}`, member("start", s), member("end", e)))
		}
	}
	// second matches through next
	for _, second := range [][2]string{{"0", "1"}, {"1", "1"}, {"2", "1"}, {"0", "3"}, {"3", "10"}, {"-1", "0"}, {"1", "2"}} {
		matchers = append(matchers, fmt.Sprintf(`function($s){{"match": "b", "start": 1, "end": 2, "groups": ["b"], "next": function(){{"match": "y", "start": %s, "end": %s, "groups": [], "next": function(){$nothing}}}}}`, second[0], second[1]))
	}
	// ill-typed members
	for _, o := range []string{
		`{"match": 1, "start": 0, "end": 1, "groups": [], "next": function(){$nothing}}`,
		`{"match": "a", "start": 0, "end": 1, "groups": "g", "next": function(){$nothing}}`,
		`{"match": "a", "start": 0, "end": 1, "groups": [1], "next": function(){$nothing}}`,
		`{"match": "a", "start": 0, "end": 1, "groups": [], "next": 5}`,
		`{"match": "a", "start": 0, "end": 1, "groups": []}`,
		`{"match": "a", "start": 0, "end": 1, "groups": [], "next": function($x, $y){$x}}`,
		`{"match": "a", "start": 0, "end": 1, "groups": [], "next": $sum}`,
		`{"match": "a", "start": 0, "end": 1, "groups": [], "next": function(){5}}`,
		`{"match": "a", "start": 0, "end": 1, "groups": [], "next": function(){[]}}`,
		`{}`, `[]`, `5`, `"s"`, `null`, `$s`, `[{"match": "a", "start": 0, "end": 1, "groups": [], "next": function(){$nothing}}]`,
	} {
		matchers = append(matchers, `function($s){`+o+`}`)
	}
	matchers = append(matchers, `function(){1}`, `function($a, $b){$a}`, `$sum`, `$string`, `$match`, `$split(?, "b")`, `/b/ ~> $string`)
	uses := []string{`$split("abc", M)`, `$split("abc", M, 1)`, `$replace("abc", M, "-")`, `$replace("aébc", M, "[$0$1]")`, `$replace("abc", M, function($m){$m.match})`, `$match("abc", M)`, `$match("abc", M, 1)`, `$contains("abc", M)`, `$contains("", M)`, `$split("", M)`}
	shard, nshards := stats.Shard()
	n := 0
	for _, m := range matchers {
		for _, u := range uses {
			n++
			if n%nshards != shard {
				continue
			}
			text := replaceAllM(u, m)
			c := evalCase{Text: text, Input: "{}"}
			res, msg := c09Run(is, c)
			c09Record(rec, c, res, true)
			if msg != "" && rec.FailNow(c, msg) >= 6 {
				return
			}
		}
	}
	rec.Exhaustive("custom_matchers_x_uses", n)
}

func replaceAllM(s, m string) string {
	out := ""
	for i := 0; i < len(s); i++ {
		if s[i] == 'M' && i > 0 && s[i-1] == ' ' {
			out += m
			continue
		}
		out += s[i : i+1]
	}
	return out
}
