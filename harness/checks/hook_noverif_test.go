//go:build !verif

package checks

import (
	jsonata "github.com/blues/jsonata-go"
	"github.com/blues/jsonata-go/jparse"
)

// without the hook only Expr.String() is observed
func exprRoot(e *jsonata.Expr) jparse.Node { return nil }

const haveRootHook = false
