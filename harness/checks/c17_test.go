package checks

// C17 — Regex literals and regex functions agree with the regular-expression
// engine. Oracle: Go's regexp package driven directly (FindAllStringSubmatchIndex
// on the pattern with the flags translated as the statement says) and a direct
// implementation of the $N template rule.

import (
	"encoding/json"
	"fmt"
	"regexp"
	"strings"
	"testing"

	"pgregory.net/rapid"

	"verif/harness/internal/port"
	"verif/harness/internal/val"
)

type c17Case struct {
	Pattern string  `json:"pattern"`
	Flags   string  `json:"flags"`
	Subject string  `json:"subject"`
	Op      string  `json:"op"` // match | contains | split | replace | replacefn | apply
	Templ   string  `json:"template,omitempty"`
	Limit   *float64 `json:"limit,omitempty"`
}

func (c c17Case) lit() string { return "/" + c.Pattern + "/" + c.Flags }

func (c c17Case) expr() string {
	lim := ""
	if c.Limit != nil {
		lim = ", " + val.Canon(val.N(*c.Limit))
	}
	switch c.Op {
	case "match":
		return "$match(s, " + c.lit() + lim + ")"
	case "contains":
		return "$contains(s, " + c.lit() + ")"
	case "split":
		return "$split(s, " + c.lit() + lim + ")"
	case "replace":
		b, _ := json.Marshal(c.Templ)
		return "$replace(s, " + c.lit() + ", " + string(b) + lim + ")"
	case "replacefn":
		return "$replace(s, " + c.lit() + `, function($m){"<$1$$" & $m.match & "$0@" & $string($m.index) & ":" & $join($m.groups, ",") & "$>"}` + lim + ")"
	case "apply":
		return `($all := function($m){$exists($m) ? $append([{"m": $m.match, "s": $m.start, "e": $m.end, "g": $m.groups}], $all($m.next())) : []}; $all(` + c.lit() + `(s)))`
	case "ctx":
		return "s.$match(" + c.lit() + ").match"
	}
	return "null"
}

// expandTemplate implements the statement's template rule: $0 the match, $N the
// N-th group taking the longest group number that exists (absent groups empty),
// $$ a dollar sign; a $ followed by anything else is a literal dollar sign.
func expandTemplate(t string, match string, groups []string) string {
	var sb strings.Builder
	for i := 0; i < len(t); i++ {
		if t[i] != '$' {
			sb.WriteByte(t[i])
			continue
		}
		if i+1 >= len(t) {
			sb.WriteByte('$')
			break
		}
		n := t[i+1]
		switch {
		case n == '$':
			sb.WriteByte('$')
			i++
		case n == '0':
			sb.WriteString(match)
			i++
		case n >= '1' && n <= '9':
			j := i + 1
			for j < len(t) && t[j] >= '0' && t[j] <= '9' {
				j++
			}
			digits := t[i+1 : j]
			used := 0
			for l := len(digits); l >= 1; l-- {
				num := 0
				for _, d := range digits[:l] {
					if num < 1000000 { // a number of any length: no pattern has that many groups
						num = num*10 + int(d-'0')
					}
				}
				if num >= 1 && num <= len(groups) {
					sb.WriteString(groups[num-1])
					used = l
					break
				}
			}
			if used == 0 {
				used = 1 // no such group: the one-digit reference is empty
			}
			i += used
		default:
			sb.WriteByte('$')
		}
	}
	return sb.String()
}

func c17Oracle(c c17Case) (want val.Value, wantErr bool, judged bool) {
	prefix := ""
	if c.Flags != "" {
		prefix = "(?" + c.Flags + ")"
	}
	re, err := regexp.Compile(prefix + c.Pattern)
	if err != nil || c.Pattern == "" {
		return val.U, true, true // compile error expected
	}
	s := c.Subject
	idx := re.FindAllStringSubmatchIndex(s, -1)
	limit := -1
	if c.Limit != nil {
		if *c.Limit < 0 {
			if c.Op == "match" || c.Op == "split" || c.Op == "replace" || c.Op == "replacefn" {
				return val.U, true, true
			}
		}
		limit = int(*c.Limit)
	}
	type mt struct {
		text   string
		start  int
		end    int
		groups []string
	}
	var ms []mt
	for _, ix := range idx {
		m := mt{text: s[ix[0]:ix[1]], start: ix[0], end: ix[1]}
		for g := 1; g < len(ix)/2; g++ {
			if ix[2*g] >= 0 {
				m.groups = append(m.groups, s[ix[2*g]:ix[2*g+1]])
			} else {
				m.groups = append(m.groups, "")
			}
		}
		ms = append(ms, m)
	}
	strs := func(xs []string) val.Value {
		out := make([]val.Value, len(xs))
		for i, x := range xs {
			out[i] = val.S(x)
		}
		return val.A(out...)
	}
	switch c.Op {
	case "match":
		if limit >= 0 && limit < len(ms) {
			ms = ms[:limit]
		}
		out := make([]val.Value, len(ms))
		for i, m := range ms {
			out[i] = val.O(map[string]val.Value{"match": val.S(m.text), "index": val.N(float64(m.start)), "groups": strs(m.groups)})
		}
		return val.A(out...), false, true
	case "contains":
		return val.B(len(ms) > 0), false, true
	case "split":
		var parts []string
		pos := 0
		for _, m := range ms {
			parts = append(parts, s[pos:m.start])
			pos = m.end
		}
		parts = append(parts, s[pos:])
		if c.Limit != nil && limit < len(parts) {
			parts = parts[:limit]
		}
		return strs(parts), false, true
	case "replace", "replacefn":
		if limit >= 0 && limit < len(ms) {
			ms = ms[:limit]
		}
		var sb strings.Builder
		pos := 0
		for _, m := range ms {
			sb.WriteString(s[pos:m.start])
			if c.Op == "replace" {
				sb.WriteString(expandTemplate(c.Templ, m.text, m.groups))
			} else {
				// what a replacement function returns is inserted as it is: the
				// dollar signs in it are text, not group references
				sb.WriteString(fmt.Sprintf("<$1$$%s$0@%d:%s$>", m.text, m.start, strings.Join(m.groups, ",")))
			}
			pos = m.end
		}
		sb.WriteString(s[pos:])
		return val.S(sb.String()), false, true
	case "apply":
		out := make([]val.Value, len(ms))
		for i, m := range ms {
			o := map[string]val.Value{"m": val.S(m.text), "s": val.N(float64(m.start)), "e": val.N(float64(m.end))}
			if len(m.groups) > 0 {
				o["g"] = strs(m.groups)
			}
			out[i] = val.O(o)
		}
		return val.A(out...), false, true
	case "ctx":
		// s.$match(/re/).match : the matched texts, as a path result
		var texts []val.Value
		for _, m := range ms {
			texts = append(texts, val.S(m.text))
		}
		switch len(texts) {
		case 0:
			return val.U, false, true
		case 1:
			return texts[0], false, true
		}
		return val.A(texts...), false, true
	}
	return val.U, false, false
}

func c17Run(c c17Case) string {
	want, wantErr, judged := c17Oracle(c)
	if !judged {
		return ""
	}
	in := val.JSON(val.O(map[string]val.Value{"s": val.S(c.Subject)}))
	got := port.Run(c.expr(), in)
	// the outcome is a function of the expression and the subject: compiling
	// and evaluating the same text again in this process gives it again
	// (patterns - invalid ones included - must not leave anything behind)
	if again := port.Run(c.expr(), in); !port.Same(got, again) {
		return fmt.Sprintf("%s on %q gives %s the first time and %s when compiled and evaluated again", c.expr(), c.Subject, got.String(), again.String())
	}
	switch {
	case wantErr:
		if got.Kind != port.KCompileError && got.Kind != port.KError {
			return fmt.Sprintf("%s must be an error (invalid/empty pattern or negative limit), the library gives %s", c.expr(), got.String())
		}
		return ""
	case want.IsUndef():
		if got.Kind != port.KUndefined {
			return fmt.Sprintf("%s on %q must yield no value, the library gives %s", c.expr(), c.Subject, got.String())
		}
		return ""
	}
	if got.Kind != port.KValue || !val.Equal(got.Val, want) {
		return fmt.Sprintf("%s on %q gives %s; the regexp engine gives %s", c.expr(), c.Subject, got.String(), val.Canon(want))
	}
	return ""
}

func init() {
	replay := func(raw json.RawMessage) string {
		var c c17Case
		if err := json.Unmarshal(raw, &c); err != nil {
			return "bad case: " + err.Error()
		}
		return c17Run(c)
	}
	registerReplay("TestC17_Random", replay)
	registerReplay("TestC17_Fixed", replay)
	registerReplay("TestC17_Findings", replay)
}

func genRegexPattern(depth int) *rapid.Generator[string] {
	return rapid.Custom(func(t *rapid.T) string {
		atom := func() string {
			switch rapid.IntRange(0, 18).Draw(t, "atom") {
			case 16, 17, 18:
				// escaped metacharacters: brackets that open or close nothing, a
				// backslash (also as the last thing before the closing delimiter)
				return rapid.SampledFrom([]string{`\(`, `\)`, `\[`, `\]`, `\\`, `\.`, `\{`, `\}`, `\d`, `\|`, `\*`,
					// character classes with an escaped bracket inside, and nested bracket pairs
					`[\]b]`, `[a\]]`, `[^\]]`, `[\[a]`, `[[:alpha:]]`, `[^[:upper:]b]`, `[\\\]]`}).Draw(t, "escaped")
			case 0, 1, 2:
				return "a"
			case 3, 4:
				return "b"
			case 5:
				return "c"
			case 6:
				return "."
			case 7:
				return "[ab]"
			case 8:
				return "[^a]"
			case 9:
				return "[a-c]"
			case 10:
				return `\/`
			case 11:
				return "^"
			case 12:
				return "$"
			case 13:
				return "é"
			}
			if depth > 0 {
				inner := genRegexPattern(depth-1).Draw(t, "inner")
				if inner == "" {
					inner = "a"
				}
				if rapid.IntRange(0, 5).Draw(t, "noncap") == 0 {
					return "(?:" + inner + ")"
				}
				return "(" + inner + ")"
			}
			return "b"
		}
		n := rapid.IntRange(1, 4).Draw(t, "natoms")
		var sb strings.Builder
		for i := 0; i < n; i++ {
			a := atom()
			sb.WriteString(a)
			if a != "^" && a != "$" {
				switch rapid.IntRange(0, 9).Draw(t, "quant") {
				case 0:
					sb.WriteString("*")
				case 1:
					sb.WriteString("+")
				case 2:
					sb.WriteString("?")
				case 3:
					sb.WriteString("{1,2}")
				}
			}
			if i+1 < n && rapid.IntRange(0, 6).Draw(t, "alt") == 0 {
				sb.WriteString("|")
			}
		}
		return sb.String()
	})
}

// TestC17_Random: generated patterns, flags, subjects, templates and limits.
func TestC17_Random(t *testing.T) {
	rec := begin(t, "C17", "rapid: patterns from a grammar of literals over {a,b,c,é}, '.', classes, alternation, capturing/non-capturing/nested/optional groups, quantifiers * + ? {m,n}, anchors and \\/, with every subset of the flags i m s; subjects of up to 12 characters over {a,b,c,A,B,newline,é,/} (matches, empty matches and adjacent matches are frequent); $match, $contains, $split, $replace with templates over $0..$12, $$, lone $, $+letter and text, $replace with a function, limits -1..4, the literal applied as a function with its next chain, and a context-defaulting $match; oracle = regexp.FindAllStringSubmatchIndex + a direct template expander; non-trivial = at least one match; distinct by case")
	defer finish(t, rec)
	pats := genRegexPattern(2)
	subj := rapid.Map(rapid.SliceOfN(rapid.SampledFrom([]string{"a", "b", "c", "a", "b", "A", "B", "\n", "é", "/", "a", "b", "(", "]", "\\", "1", "."}), 0, 12), func(p []string) string { return strings.Join(p, "") })
	templ := rapid.Map(rapid.SliceOfN(rapid.SampledFrom([]string{"$0", "$1", "$2", "$3", "$10", "$12", "$11", "$$", "$", "$x", "x", "-", "$9", "<", ">", "1", "0", "$99999999999999999999", "$18446744073709551617", "$4294967297", "$100000000000000000000000000000001"}), 0, 5), func(p []string) string { return strings.Join(p, "") })
	rapidRun(t, rec, 30000, 400000, func(rt *rapid.T) {
		c := c17Case{
			Pattern: pats.Draw(rt, "pattern"),
			Flags:   rapid.SampledFrom([]string{"", "", "", "i", "m", "s", "im", "is", "ms", "ims", "mi", "si"}).Draw(rt, "flags"),
			Subject: subj.Draw(rt, "subject"),
			Op:      rapid.SampledFrom([]string{"match", "match", "contains", "split", "split", "replace", "replace", "replace", "replacefn", "apply", "ctx"}).Draw(rt, "op"),
		}
		if rapid.IntRange(0, 5).Draw(rt, "anchoredLiteral") == 0 {
			// a pure literal between anchors, and a subject that contains the literal
			// (with or without something around it): the engine decides, not a
			// substring search
			lit := strings.Join(rapid.SliceOfN(rapid.SampledFrom([]string{"a", "b", "c", "é", "ab"}), 1, 3).Draw(rt, "literal"), "")
			c.Pattern = rapid.SampledFrom([]string{"^" + lit + "$", "^" + lit, lit + "$", "^(" + lit + ")$", lit}).Draw(rt, "anchoring")
			pre := rapid.SampledFrom([]string{"", "", "a", "b", "x\n", "\n", lit}).Draw(rt, "before")
			post := rapid.SampledFrom([]string{"", "", "a", "c", "\nx", "\n", lit}).Draw(rt, "after")
			c.Subject = pre + lit + post
		}
		if c.Op == "replace" {
			c.Templ = templ.Draw(rt, "template")
		}
		if c.Op != "contains" && c.Op != "apply" && c.Op != "ctx" && rapid.Bool().Draw(rt, "withLimit") {
			l := float64(rapid.IntRange(-1, 4).Draw(rt, "limit"))
			c.Limit = &l
		}
		m := c17Run(c)
		want, _, _ := c17Oracle(c)
		hasMatch := false
		if re, err := regexp.Compile(c.Pattern); err == nil {
			hasMatch = re.MatchString(c.Subject)
		}
		_ = want
		rec.Case(string(mustJSON(c)), hasMatch, func() interface{} { return map[string]interface{}{"expr": c.expr(), "subject": c.Subject} })
		rec.Class("op_" + c.Op)
		if hasMatch {
			rec.Class("with_match")
		}
		if strings.Contains(c.Pattern, "(") && !strings.Contains(c.Pattern, "(?:") {
			rec.Class("with_groups")
		}
		if c.Limit != nil {
			rec.Class("with_limit")
		}
		if m != "" && rec.Fail(c, m) {
			rt.Fatalf("%s", m)
		}
	})
	if n := rec.Evaluations(); n > 2000 && rec.ClassCount("with_match")*100 < n*40 {
		rec.Fatal("generator regression: fewer than 40% of the cases have a match")
	}
}

// TestC17_Fixed: the compile-error clause and hand-picked shapes.
func TestC17_Fixed(t *testing.T) {
	rec := begin(t, "C17", "fixed list: empty and invalid patterns (compile errors), every flag subset on a multi-line subject, non-participating groups, empty matches at every position, template numbers beyond the group count; same oracle")
	defer finish(t, rec)
	lim := func(x float64) *float64 { return &x }
	cases := []c17Case{
		{Pattern: "", Subject: "a", Op: "contains"},
		{Pattern: "(", Subject: "a", Op: "contains"},
		{Pattern: "a{2,1}", Subject: "a", Op: "match"},
		{Pattern: "*a", Subject: "a", Op: "match"},
		{Pattern: "[a", Subject: "a", Op: "match"},
		{Pattern: "a(b)?(c)?", Subject: "abacaabc", Op: "match"},
		{Pattern: "a(b)?(c)?", Subject: "abacaabc", Op: "replace", Templ: "[$1|$2|$3|$12|$20]"},
		{Pattern: "", Flags: "i", Subject: "a", Op: "match"},
		{Pattern: "^", Flags: "m", Subject: "a\nb\nc", Op: "replace", Templ: "> "},
		{Pattern: "$", Flags: "m", Subject: "a\nb\nc", Op: "split"},
		{Pattern: "a.b", Flags: "s", Subject: "a\nb", Op: "contains"},
		{Pattern: "a.b", Flags: "", Subject: "a\nb", Op: "contains"},
		{Pattern: "AB", Flags: "i", Subject: "xxabxx", Op: "match"},
		{Pattern: "b*", Subject: "abbcb", Op: "match"},
		{Pattern: "b*", Subject: "abbcb", Op: "split"},
		{Pattern: "b*", Subject: "abbcb", Op: "replace", Templ: "-"},
		{Pattern: "b*", Subject: "abbcb", Op: "apply"},
		{Pattern: `\/`, Subject: "a/b/c", Op: "split"},
		{Pattern: "(a)(b)(c)(a)(b)(c)(a)(b)(c)(a)(b)(c)", Subject: "abcabcabcabc", Op: "replace", Templ: "$12$11$10$1$13$120"},
		// two-digit group numbers whose group exists but is empty or did not take part
		{Pattern: "(a)(b)(c)(d)(e)(f)(g)(h)(i)(j)(k)?", Subject: "abcdefghij", Op: "replace", Templ: "[$11][$10][$1][$110]"},
		{Pattern: "(a)(b)(c)(d)(e)(f)(g)(h)(i)(j*)", Subject: "abcdefghi", Op: "replace", Templ: "<$10><$100>"},
		{Pattern: "(a)(b)(c)(d)(e)(f)(g)(h)(i)(j)?(k)?(l)?", Subject: "abcdefghikxabcdefghijl", Op: "replace", Templ: "$12-$11-$10-$9"},
		{Pattern: "(a)(b)(c)(d)(e)(f)(g)(h)(i)(j)(k)?", Subject: "abcdefghij", Op: "match"},
		{Pattern: "(x)?(y)?(z)?a", Subject: "ya", Op: "replace", Templ: "$1|$2|$3|$4|$10|$20|$30"},
		// group numbers of any length (2^64+1 and 2^32+1 must not wrap round to group 1)
		{Pattern: "(b)", Subject: "abc", Op: "replace", Templ: "$99999999999999999999"},
		{Pattern: "(b)", Subject: "abc", Op: "replace", Templ: "[$18446744073709551617][$4294967297]"},
		{Pattern: "b", Subject: "abc", Op: "replace", Templ: "$100000000000000000000000000000001"},
		// left context of the second and later matches
		{Pattern: "^a", Subject: "aaab", Op: "replace", Templ: "X"},
		{Pattern: "^a", Subject: "aaab", Op: "match"},
		{Pattern: "^a", Subject: "aaab", Op: "apply"},
		{Pattern: `\bb`, Subject: "bb ab b", Op: "replace", Templ: "X"},
		{Pattern: `\Bb`, Subject: "bb ab b", Op: "split"},
		{Pattern: "^", Subject: "ab", Op: "match"},
		{Pattern: "^a", Flags: "m", Subject: "aa\naa", Op: "match"},
		{Pattern: "b", Subject: "abbb", Op: "replace", Templ: "x", Limit: lim(2)},
		{Pattern: "b", Subject: "abbb", Op: "match", Limit: lim(0)},
		{Pattern: "b", Subject: "abbb", Op: "split", Limit: lim(-1)},
		{Pattern: "é+", Subject: "aééb", Op: "match"},
		{Pattern: "b", Subject: "éb", Op: "apply"},
	}
	for _, c := range cases {
		m := c17Run(c)
		rec.Case(string(mustJSON(c)), true, func() interface{} { return map[string]interface{}{"expr": c.expr(), "subject": c.Subject} })
		if m != "" && rec.FailNow(c, m) >= 8 {
			return
		}
	}
	rec.Exhaustive("fixed_regex_cases", len(cases))
}
