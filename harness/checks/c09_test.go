package checks

// C09 — Eval is total: outcomes are returned, never thrown, even for ill-typed
// programs. Oracle: the call returns through its results; a recovered panic, a
// worker crash or a reproduced timeout is a violation. Cases run in an
// isolated worker process.

import (
	"encoding/json"
	"fmt"
	"os"
	"path/filepath"
	"strings"
	"sync"
	"testing"

	"pgregory.net/rapid"

	"verif/harness/internal/ast"
	"verif/harness/internal/gen"
	"verif/harness/internal/port"
	"verif/harness/internal/stats"
	"verif/harness/internal/val"
)

type evalCase struct {
	Text  string `json:"text"`
	Input string `json:"input"` // JSON text; "" = nil input
}

type evalResult struct {
	Kind string `json:"kind"`
	Err  string `json:"err,omitempty"`
	Msg  string `json:"msg,omitempty"`
	Site string `json:"site,omitempty"`
}

func init() {
	workerOps["eval"] = func(raw json.RawMessage) interface{} {
		var c evalCase
		if err := json.Unmarshal(raw, &c); err != nil {
			return evalResult{Kind: "bad_case", Msg: err.Error()}
		}
		o := port.Run(c.Text, c.Input)
		return evalResult{Kind: o.Kind, Err: o.Err, Msg: o.Msg, Site: o.Site}
	}
	replay := func(raw json.RawMessage) string {
		var c evalCase
		if err := json.Unmarshal(raw, &c); err != nil {
			return "bad case: " + err.Error()
		}
		is := newIsolator()
		defer is.Close()
		_, msg := c09Run(is, c)
		return msg
	}
	for _, n := range []string{"TestC09_Chaotic", "TestC09_EdgeNumbers", "TestC09_Corpus", "TestC09_Findings"} {
		registerReplay(n, replay)
	}
}

// c09Run evaluates one case in isolation; msg != "" is a violation.
func c09Run(is *isolator, c evalCase) (evalResult, string) {
	r := is.Call("eval", mustJSON(c))
	switch r.Status {
	case isoOK, isoFlaky:
		var res evalResult
		json.Unmarshal(r.Result, &res)
		if res.Kind == port.KPanic {
			return res, fmt.Sprintf("Eval panicked at %s: %s", res.Site, res.Msg)
		}
		if r.Status == isoFlaky {
			res.Kind = "inconclusive"
		}
		return res, ""
	case isoOOM:
		return evalResult{Kind: "inconclusive"}, ""
	case isoTimeout:
		return evalResult{Kind: port.KTimeout}, "Eval did not return: " + r.Detail
	case isoCrash:
		return evalResult{Kind: "crash"}, "process crashed during Eval: " + r.Detail
	case isoPanic:
		return evalResult{Kind: port.KPanic}, "panic escaped: " + firstLines(r.Detail, 6)
	}
	return evalResult{Kind: "harness"}, "harness: " + r.Detail
}

// padHugeWidth recognises the open finding F-E10: $pad with a width whose
// conversion to int overflows panics in strings.Repeat / makeslice.
func padHugeWidth(caseJSON []byte, msg string) bool {
	cs := string(caseJSON)
	if strings.Contains(msg, "jlib.Pad") &&
		(strings.Contains(msg, "makeslice") || strings.Contains(msg, "Repeat") || strings.Contains(msg, "out of range")) &&
		strings.Contains(cs, "pad") {
		return true
	}
	// the same unbounded width without a panic: a padding of 2^31 or more
	// characters that does not finish (or exhausts memory) within the time limit
	if strings.Contains(msg, "did not return") && strings.Contains(cs, "$pad(") {
		for _, w := range []string{"2.147483648e+09", "4.294967296e+09", "9.223372036854776e+18", "1e+21", "1e+308"} {
			if strings.Contains(cs, w) {
				return true
			}
		}
	}
	return false
}

func c09Nontrivial(prog *ast.Node) bool {
	if prog.Count() < 3 {
		return false
	}
	return prog.Has(func(n *ast.Node) bool { return n.K == ast.Call || n.K == ast.Path || n.K == ast.Pred })
}

func c09Record(rec *stats.Recorder, c evalCase, res evalResult, nontrivial bool) {
	if res.Kind == port.KCompileError {
		rec.Class("compile_error")
		rec.Eval(1)
		return
	}
	rec.Case(c.Text+"|"+c.Input, nontrivial, func() interface{} {
		return map[string]interface{}{"expr": c.Text, "input": c.Input, "outcome": res.Kind + " " + res.Err}
	})
	rec.Class("outcome_" + res.Kind)
}

func c09Floors(rec *stats.Recorder) {
	n := rec.Evaluations()
	if n < 2000 {
		return
	}
	errs := rec.ClassCount("outcome_" + port.KError)
	ce := rec.ClassCount("compile_error")
	if errs*100 > n*85 {
		rec.Fatal(fmt.Sprintf("generator regression: %d of %d evaluations end in an error", errs, n))
	}
	if ce*100 > n*10 {
		rec.Fatal(fmt.Sprintf("generator regression: %d of %d programs do not compile", ce, n))
	}
}

func c09Docs() *rapid.Generator[val.Value] {
	return rapid.OneOf(
		gen.Doc(gen.DocOpts{NestedArrays: 0.3}),
		gen.Doc(gen.DocOpts{NestedArrays: 0, NullFree: true}),
		gen.Doc(gen.DocOpts{NestedArrays: 0.6, MaxDepth: 5}),
	)
}

func c09Property(t *testing.T, rec *stats.Recorder, opts gen.ChaoticOpts, quick, thorough int) {
	is := newIsolator()
	defer is.Close()
	progs := gen.Chaotic(opts)
	docs := c09Docs()
	rec.Matcher("F-E10", padHugeWidth)
	var hg hangGuard
	rapidRun(t, rec, quick, thorough, func(rt *rapid.T) {
		if hg.tripped() {
			return
		}
		prog := ast.Normalize(progs.Draw(rt, "prog"))
		doc := docs.Draw(rt, "doc")
		c := evalCase{Text: ast.Print(prog), Input: val.JSON(doc)}
		if rapid.IntRange(0, 30).Draw(rt, "nilInput") == 0 {
			c.Input = ""
		}
		res, msg := c09Run(is, c)
		c09Record(rec, c, res, c09Nontrivial(prog))
		if res.Kind == "inconclusive" {
			rec.Inconclusive()
		}
		hg.fail(rt, rec, c, msg, fmt.Sprintf("\n  expr: %s\n  input: %s", c.Text, c.Input))
	})
	c09Floors(rec)
}

const c09Rule = "rapid: type-chaotic programs (any expression in any operand/argument position, all 60 built-ins with 0..max+1 arguments, lambdas, partials, chains, transforms, predicates, grouping, order-by) over generated JSON documents with nulls, empty containers and arrays in arrays; non-trivial = compiled, >= 3 AST nodes, contains a call, path or predicate; distinct by program text + input"

// TestC09_Chaotic: type-chaotic programs over generated documents.
func TestC09_Chaotic(t *testing.T) {
	rec := begin(t, "C09", c09Rule)
	defer finish(t, rec)
	c09Property(t, rec, gen.ChaoticOpts{MaxDepth: 5}, 40000, 600000)
}

// TestC09_EdgeNumbers: the same with the edge-number set (1e21, 2^31, 2^63,
// 1e308, 5e-324 …) fed to numeric parameters.
func TestC09_EdgeNumbers(t *testing.T) {
	rec := begin(t, "C09", c09Rule+" (edge-number variant: +-1e21, 2^31, 2^32, 2^63, 1e308, 5e-324 as numeric arguments)")
	defer finish(t, rec)
	c09Property(t, rec, gen.ChaoticOpts{MaxDepth: 4, EdgeNumbers: true}, 20000, 300000)
}

var (
	testdataOnce sync.Once
	testdataDocs []string
)

func loadTestdata() []string {
	testdataOnce.Do(func() {
		// the repository's bundled documents, copied into /verif/corpus/testdata
		files, _ := filepath.Glob(filepath.Join(stats.Root(), "corpus", "testdata", "*.json"))
		for _, f := range files {
			if b, err := os.ReadFile(f); err == nil && json.Valid(b) {
				testdataDocs = append(testdataDocs, string(b))
			}
		}
	})
	return testdataDocs
}

// TestC09_Corpus: every expression of the repository's tests on every bundled
// document and on generated documents.
func TestC09_Corpus(t *testing.T) {
	rec := begin(t, "C09", "the ~1300 expressions of the repository's own tests evaluated on each of its 14 bundled documents and on generated documents; non-trivial = compiled and length >= 3")
	defer finish(t, rec)
	is := newIsolator()
	defer is.Close()
	rec.Matcher("F-E10", padHugeWidth)
	cp := loadCorpus()
	docs := loadTestdata()
	if len(cp) < 500 || len(docs) < 10 {
		rec.Fatal("corpus missing")
		return
	}
	shard, nshards := stats.Shard()
	n := 0
	for i, e := range cp {
		if !safeToEvalCorpus(e) {
			rec.Excluded()
			continue
		}
		for j, d := range docs {
			if (i+j)%nshards != shard {
				continue
			}
			if !Thorough() && (i+j)%3 != 0 {
				continue // quick: a third of the cross product
			}
			c := evalCase{Text: e, Input: d}
			res, msg := c09Run(is, c)
			n++
			if res.Kind == port.KCompileError {
				rec.Class("compile_error")
				rec.Eval(1)
				break
			}
			rec.Case(fmt.Sprintf("%d|%d", i, j), len(e) >= 3, func() interface{} {
				return map[string]interface{}{"expr": e, "doc": fmt.Sprintf("testdata[%d]", j), "outcome": res.Kind + " " + res.Err}
			})
			rec.Class("outcome_" + res.Kind)
			if msg != "" {
				if rec.FailNow(c, msg) >= 5 {
					return
				}
			}
		}
	}
	rec.Exhaustive("corpus_x_bundled_documents", n)
	gdocs := c09Docs()
	var hg hangGuard
	rapidRun(t, rec, 8000, 100000, func(rt *rapid.T) {
		e := rapid.SampledFrom(cp).Draw(rt, "expr")
		if !safeToEvalCorpus(e) || hg.tripped() {
			return
		}
		c := evalCase{Text: e, Input: val.JSON(gdocs.Draw(rt, "doc"))}
		res, msg := c09Run(is, c)
		if res.Kind == port.KCompileError {
			rec.Class("compile_error")
			rec.Eval(1)
			return
		}
		rec.Case(c.Text+"|"+c.Input, len(e) >= 3, func() interface{} {
			return map[string]interface{}{"expr": c.Text, "input": c.Input, "outcome": res.Kind + " " + res.Err}
		})
		rec.Class("outcome_" + res.Kind)
		hg.fail(rt, rec, c, msg, fmt.Sprintf("\n  expr: %s\n  input: %s", c.Text, c.Input))
	})
}

// safeToEvalCorpus excludes the few repository expressions that are built to
// run long (ranges at the 10^7 limit, deep recursion tests).
// Expressions that define lambdas are excluded too: evaluated on a document
// other than the one their test was written for, a recursive function may be
// unboundedly recursive, which the property excludes.
func safeToEvalCorpus(e string) bool {
	if strings.Contains(e, "function") || strings.Contains(e, "λ") {
		return false
	}
	return !reDigits4.MatchString(e) || !strings.Contains(e, "..")
}
