package checks

// C09, picture strings: the formatting and parsing built-ins interpret a
// second small language (date/time markers, decimal-format pictures, integer
// pictures). The chaotic generator reaches them only when a picture happens
// to land in the right argument, so this check calls each of them directly
// with pictures from the marker grammars - valid and malformed, with digit
// runs up to and past the limits of the components (nine nanosecond digits,
// nineteen decimal digits of an int64) - and values at the edges.

import (
	"encoding/json"
	"fmt"
	"strings"
	"testing"

	"pgregory.net/rapid"

	"verif/harness/internal/gen"
)

func init() {
	registerReplay("TestC09_Pictures", func(raw json.RawMessage) string { return replayers["TestC09_Chaotic"](raw) })
}

func c09IntegerPicture() *rapid.Generator[string] {
	fixed := []string{"0", "1", "#,##0", "#,###,##0", "000", "a", "A", "i", "I", "w", "W", "Ww", "o", "0;o", "w;o", "1;t", "#", "##", "0,0", ",0", "0,", "#0#", "", ";", ";o", "é", "١", "0١", "12", "z", "Α", "α", "一", "①", "⑴", "0;", "1;c", "w;oé", "Ww;o(-er)"}
	return rapid.Custom(func(t *rapid.T) string {
		switch rapid.IntRange(0, 2).Draw(t, "ipKind") {
		case 0:
			return rapid.SampledFrom(fixed).Draw(t, "ipFixed")
		case 1:
			run := rapid.SampledFrom([]int{1, 2, 3, 8, 9, 10, 18, 19, 20, 21, 40}).Draw(t, "ipRun")
			s := strings.Repeat(rapid.SampledFrom([]string{"0", "#", "9"}).Draw(t, "ipCh"), run-1) + rapid.SampledFrom([]string{"0", "1", "#"}).Draw(t, "ipEnd")
			if rapid.Bool().Draw(t, "ipSep") && len(s) > 3 {
				s = s[:len(s)-3] + "," + s[len(s)-3:]
			}
			return s + rapid.SampledFrom([]string{"", ";o", ";c", ";t"}).Draw(t, "ipMod")
		}
		parts := []string{"0", "#", ",", "1", "9", "a", "w", "W", "i", "I", ";", "o", " ", "é", "."}
		return strings.Join(rapid.SliceOfN(rapid.SampledFrom(parts), 0, 8).Draw(t, "ipSoup"), "")
	})
}

func TestC09_Pictures(t *testing.T) {
	rec := begin(t, "C09", "rapid: direct calls of $fromMillis/$toMillis/$now/$formatNumber (with and without options objects)/$formatBase with pictures drawn from the marker grammars (every component letter x presentation formats incl. digit runs of 1..40 placeholders x width modifiers, malformed brackets, mostly-valid multi-marker pictures, format-then-parse with the same picture; decimal-format soups and long pictures; integer presentation pictures incl. letters, words, roman, ordinals, foreign digits, runs of 1..40 digits inside date components) and edge values (0, negatives, 2^31, 2^53, 2^63, 1e21, 1e308, 5e-324, fractions; timestamps before the epoch, far future, out of range; strings that do and do not match); oracle: Eval returns (value or error) in the isolated worker; non-trivial = all; distinct by program text")
	defer finish(t, rec)
	is := newIsolator()
	defer is.Close()
	rec.Matcher("F-E10", padHugeWidth)
	millis := []string{"0", "1521801216617", "-1", "-62198755200000", "253402300799999", "253402300800000", "1e15", "8.64e15", "8.640000000000001e15", "-8.64e15", "1e21", "9223372036854775807", "-9223372036854775808", "1.5", "1521801216617.75", "1e308", "5e-324", "951782400000", "1709164800000", "1230768000000"}
	numbers := []string{"0", "1", "-1", "12", "99", "100", "1234", "1234567", "0.5", "-0.5", "1234.5678", "2147483648", "4294967296", "9007199254740992", "9223372036854775807", "9223372036854775808", "-9223372036854775808", "1e21", "-1e21", "1e308", "5e-324", "0.000001", "3999", "4000", "1000000", "1e15", "1e18", "999999999999999999", "-0"}
	zones := []string{"", `, "+0000"`, `, "-0500"`, `, "+0530"`, `, "+1400"`, `, "-1"`, `, "Z"`, `, ""`, `, "+9999"`}
	strs := []string{`"2018-03-23"`, `"2018-03-23T10:33:36.617Z"`, `"23rd March 2018"`, `"12:00 am"`, `"1"`, `""`, `"twelve"`, `"one thousand, two hundred and thirty-four"`, `"MCMLXXXIV"`, `"xii"`, `"1,234"`, `"1234"`, `"12th"`, `"aa"`, `"AZ"`, `"99999999999999999999"`, `"-5"`, `"٣"`, `"first"`, `"one hundredth"`, `"Friday"`, `"2018-W12-5"`, `"082"`, `"617000000"`, `"36.617000000"`}
	dsoup, nsoup, ipic := rapid.OneOf(gen.DatePictureSoup(), gen.DatePictureValidish(), gen.DatePictureValidish()), rapid.OneOf(gen.NumberPictureSoup(), rapid.SampledFrom([]string{"#0.00", "0", "#,##0.0#", "00.0e0", "#.e0", "0%", "#;(#)", "#,##,#0", "0,0.0,0", "#0e00", "###,###,###,###,###,###,##0.000000000000000000000", "0000000000000000000000000", "0.#########################", "000.000e000"})), c09IntegerPicture()
	lit := func(s string) string { b, _ := json.Marshal(s); return string(b) }
	var hg hangGuard
	rapidRun(t, rec, 12000, 250000, func(rt *rapid.T) {
		if hg.tripped() {
			return
		}
		var text string
		switch rapid.IntRange(0, 9).Draw(rt, "fn") {
		case 0, 1, 2:
			text = fmt.Sprintf(`$fromMillis(%s, %s%s)`, rapid.SampledFrom(millis).Draw(rt, "ms"), lit(dsoup.Draw(rt, "dp")), rapid.SampledFrom(zones).Draw(rt, "tz"))
		case 3, 4:
			text = fmt.Sprintf(`$toMillis(%s, %s)`, rapid.SampledFrom(strs).Draw(rt, "s"), lit(dsoup.Draw(rt, "dp")))
		case 5:
			// what was formatted is parsed back with the same picture
			p := lit(dsoup.Draw(rt, "dp"))
			text = fmt.Sprintf(`$toMillis($fromMillis(%s, %s), %s)`, rapid.SampledFrom(millis).Draw(rt, "ms"), p, p)
		case 6:
			text = fmt.Sprintf(`$formatNumber(%s, %s)`, rapid.SampledFrom(numbers).Draw(rt, "n"), lit(nsoup.Draw(rt, "np")))
		case 7:
			// custom decimal-format options, well- and ill-formed
			opt := rapid.SampledFrom([]string{`{}`, `{"decimal-separator": ","}`, `{"grouping-separator": ".", "decimal-separator": ","}`, `{"zero-digit": "٠"}`, `{"zero-digit": "a"}`, `{"minus-sign": "m"}`, `{"percent": "pc"}`, `{"per-mille": ""}`, `{"digit": "0"}`, `{"pattern-separator": "#"}`, `{"exponent-separator": "x"}`, `{"decimal-separator": ""}`, `{"decimal-separator": 1}`, `{"infinity": "oo", "NaN": "nan"}`, `{"zero-digit": "𝟎"}`, `null`, `[]`, `"x"`}).Draw(rt, "opt")
			text = fmt.Sprintf(`$formatNumber(%s, %s, %s)`, rapid.SampledFrom(numbers).Draw(rt, "n"), lit(nsoup.Draw(rt, "np")), opt)
		case 8:
			// the integer pictures of the XPath family where a date
			// component takes them: [Y<picture>], [D<picture>]
			c := rapid.SampledFrom([]string{"Y", "D", "M", "H", "m", "s", "f", "F", "d", "W"}).Draw(rt, "ipComp")
			p := lit("[" + c + ipic.Draw(rt, "ip") + "]")
			if rapid.Bool().Draw(rt, "roundTrip") {
				text = fmt.Sprintf(`$toMillis($fromMillis(%s, %s), %s)`, rapid.SampledFrom(millis).Draw(rt, "ms"), p, p)
			} else {
				text = fmt.Sprintf(`$toMillis(%s, %s)`, rapid.SampledFrom(strs).Draw(rt, "s"), p)
			}
		case 9:
			if rapid.Bool().Draw(rt, "now") {
				text = fmt.Sprintf(`$now(%s%s)`, lit(dsoup.Draw(rt, "dp")), rapid.SampledFrom(zones).Draw(rt, "tz"))
			} else {
				text = fmt.Sprintf(`$formatBase(%s, %s)`, rapid.SampledFrom(numbers).Draw(rt, "n"), rapid.SampledFrom([]string{"2", "36", "16", "1", "37", "0", "-2", "2.5", "1e21"}).Draw(rt, "base"))
			}
		}
		c := evalCase{Text: text, Input: "null"}
		res, msg := c09Run(is, c)
		c09Record(rec, c, res, true)
		rec.Class("fn_" + text[:strings.IndexByte(text, '(')])
		if res.Kind == "inconclusive" {
			rec.Inconclusive()
		}
		hg.fail(rt, rec, c, msg, "\n  expr: "+c.Text)
	})
}
