package checks

// C03 — Operators compute their defined results; missing/wrong-typed operands
// handled. Oracle: the operator table of the statement (ref.BinOp and friends),
// applied to an exhaustive operator x operand-kind x operand-kind table with
// operands supplied as literals and as input members, plus random nested
// operator expressions over arbitrary doubles and Unicode strings.

import (
	"fmt"
	"math"
	"strings"
	"testing"

	"pgregory.net/rapid"

	"verif/harness/internal/ast"
	"verif/harness/internal/port"
	"verif/harness/internal/val"
)

type operandKind struct {
	name string
	lit  func() *ast.Node // literal spelling
	doc  *val.Value       // value when supplied through the input document (nil = not possible)
}

func numLit(x float64) func() *ast.Node { return func() *ast.Node { return ast.NumN(x) } }
func strLit(s string) func() *ast.Node  { return func() *ast.Node { return ast.StrN(s) } }
func vp(v val.Value) *val.Value         { return &v }

func jsonLit(v val.Value) *ast.Node {
	switch v.K {
	case val.Num:
		return ast.NumN(v.N)
	case val.Str:
		return ast.StrN(v.S)
	case val.Bool:
		return ast.BoolN(v.B)
	case val.Null:
		return ast.NullN()
	case val.Arr:
		n := ast.ArrN()
		for _, e := range v.A {
			n.C = append(n.C, jsonLit(e))
		}
		return n
	case val.Obj:
		n := ast.N(ast.Obj)
		for _, k := range v.Keys() {
			n.C = append(n.C, ast.StrN(k), jsonLit(v.O[k]))
		}
		return n
	}
	return ast.NameN("zz")
}

func c03Kinds() []operandKind {
	mk := func(name, js string) operandKind {
		v := val.MustJSON(js)
		return operandKind{name: name, lit: func() *ast.Node { return jsonLit(v) }, doc: vp(v)}
	}
	return []operandKind{
		{"0", numLit(0), vp(val.N(0))},
		{"-0", numLit(math.Copysign(0, -1)), nil},
		{"1", numLit(1), vp(val.N(1))},
		{"2.5", numLit(2.5), vp(val.N(2.5))},
		{"-3", numLit(-3), vp(val.N(-3))},
		{"1e308", numLit(1e308), vp(val.N(1e308))},
		{"5e-324", numLit(5e-324), vp(val.N(5e-324))},
		{"7", numLit(7), vp(val.N(7))},
		{`""`, strLit(""), vp(val.S(""))},
		{`"a"`, strLit("a"), vp(val.S("a"))},
		{`"b"`, strLit("b"), vp(val.S("b"))},
		{`"10"`, strLit("10"), vp(val.S("10"))},
		{`"é"`, strLit("é"), vp(val.S("é"))},
		// code point order, not UTF-16 unit order: U+FF21 < U+1F600, U+FFFD < U+10000
		{`"Ａ"`, strLit("Ａ"), vp(val.S("Ａ"))},
		{`"😀"`, strLit("😀"), vp(val.S("😀"))},
		{`"caf𐀀"`, strLit("caf𐀀"), vp(val.S("caf𐀀"))},
		{`"caf�"`, strLit("caf�"), vp(val.S("caf�"))},
		mk("true", "true"),
		mk("false", "false"),
		// JSON null inside input documents is excluded (the port treats it as
		// absent when reached through a path; README "Null handling"): literal only
		{"null", func() *ast.Node { return ast.NullN() }, nil},
		mk("[]", "[]"),
		mk("[1]", "[1]"),
		mk(`[1,"a"]`, `[1,"a"]`),
		mk("[0,2]", "[0,2]"),
		mk("{}", "{}"),
		mk(`{"a":1}`, `{"a":1}`),
		// null nested inside a container (literal and read from the input): the
		// container is selected, not the null; arrays of only falsy / truthy members
		mk(`[1,null]`, `[1,null]`),
		mk(`{"x":null}`, `{"x":null}`),
		mk(`[null]`, `[null]`),
		mk(`[0]`, `[0]`),
		mk(`[false,0,""]`, `[false,0,""]`),
		mk(`[false,"x"]`, `[false,"x"]`),
		{"$sum", func() *ast.Node { return ast.VarN("sum") }, nil},
		{"lambda", func() *ast.Node { return ast.LambdaN([]string{"x"}, "", ast.VarN("x")) }, nil},
		{"missing", func() *ast.Node { return ast.NameN("zz") }, nil},
	}
}

var c03BinOps = []string{"+", "-", "*", "/", "%", "=", "!=", "<", "<=", ">", ">=", "in", "and", "or", "&"}

func init() {
	for _, n := range []string{"TestC03_Table", "TestC03_Random", "TestC03_Findings"} {
		registerReplay(n, diffReplay)
	}
}

func c03Check(rec interface {
	Case(string, bool, func() interface{})
	Class(string)
}, c diffCase, key string) (string, bool) {
	p, r, m, skip := diffRun(c)
	if skip {
		return "", true
	}
	rec.Case(key, true, diffSample(c, p))
	rec.Class("outcome_" + r.Kind)
	return m, false
}

// TestC03_Table: every operator x operand kind x operand kind, both supply modes.
func TestC03_Table(t *testing.T) {
	rec := begin(t, "C03", "exhaustive table: 15 binary operators, range, unary minus and the conditional x 25 operand kinds x 25 operand kinds, operands supplied as literals and (where JSON allows) as input members; every cell is non-trivial; distinct by (operator, kinds, supply mode)")
	defer finish(t, rec)
	kinds := c03Kinds()
	cells := 0
	emit := func(prog *ast.Node, doc val.Value, hasDoc bool, key string) bool {
		c := mkDiff(prog, doc, hasDoc)
		m, skip := c03Check(rec, c, key)
		cells++
		if skip {
			rec.Class("skipped")
			return true
		}
		if m != "" {
			return rec.FailNow(c, m) < 8
		}
		return true
	}
	emptyDoc := val.O(nil)
	for _, l := range kinds {
		// unary minus and conditional (one operand)
		if !emit(ast.N(ast.Neg, l.lit()), emptyDoc, true, "neg|"+l.name+"|lit") {
			return
		}
		// stacked unary minus, written without parentheses: every minus is applied
		// (and type-checks its operand) at run time
		{
			lt := ast.Print(ast.Normalize(l.lit()))
			two := ast.N(ast.Neg, ast.N(ast.Neg, l.lit()))
			three := ast.N(ast.Neg, ast.N(ast.Neg, ast.N(ast.Neg, l.lit())))
			for _, sp := range []struct {
				prog *ast.Node
				text string
			}{{two, "--" + lt}, {two, "- -" + lt}, {two, "-(-" + lt + ")"}, {three, "---" + lt}, {three, "- - -" + lt}, {two, "1 + --" + lt}, {two, "[--" + lt + "][0]"}} {
				prog := sp.prog
				switch {
				case strings.HasPrefix(sp.text, "1 +"):
					prog = ast.BinN("+", ast.NumN(1), prog)
				case strings.HasPrefix(sp.text, "["):
					prog = ast.PredN(ast.ArrN(prog), ast.NumN(0))
				}
				c := mkDiff(prog, emptyDoc, true)
				c.Text = sp.text
				m, skip := c03Check(rec, c, "negneg|"+l.name+"|"+sp.text)
				cells++
				if !skip && m != "" && rec.FailNow(c, m) >= 8 {
					return
				}
			}
		}
		if !emit(ast.N(ast.Cond, l.lit(), ast.StrN("T"), ast.CallN("error", ast.StrN("else evaluated"))), emptyDoc, true, "cond-then|"+l.name) {
			return
		}
		if !emit(ast.N(ast.Cond, l.lit(), ast.CallN("error", ast.StrN("then evaluated")), ast.StrN("F")), emptyDoc, true, "cond-else|"+l.name) {
			return
		}
		if !emit(ast.N(ast.Cond, l.lit(), ast.StrN("T")), emptyDoc, true, "cond-noelse|"+l.name) {
			return
		}
		if l.doc != nil {
			d := val.O(map[string]val.Value{"l": *l.doc})
			if !emit(ast.N(ast.Neg, ast.NameN("l")), d, true, "neg|"+l.name+"|doc") {
				return
			}
			if !emit(ast.N(ast.Cond, ast.NameN("l"), ast.StrN("T"), ast.StrN("F")), d, true, "cond|"+l.name+"|doc") {
				return
			}
		}
		for _, r := range kinds {
			for _, op := range c03BinOps {
				if (op == "=" || op == "!=" || op == "in") && (l.name == "$sum" || l.name == "lambda" || r.name == "$sum" || r.name == "lambda") {
					continue // the statement defines no equality on functions
				}
				if !emit(ast.BinN(op, l.lit(), r.lit()), emptyDoc, true, op+"|"+l.name+"|"+r.name+"|lit") {
					return
				}
				if l.doc != nil && r.doc != nil {
					d := val.O(map[string]val.Value{"l": *l.doc, "r": *r.doc})
					if !emit(ast.BinN(op, ast.NameN("l"), ast.NameN("r")), d, true, op+"|"+l.name+"|"+r.name+"|doc") {
						return
					}
				}
			}
			// range inside an array constructor; the count keeps the oracle from materialising large ranges
			rng := ast.CallN("count", ast.ArrN(ast.N(ast.Range, l.lit(), r.lit())))
			if !emit(rng, emptyDoc, true, "..|"+l.name+"|"+r.name+"|lit") {
				return
			}
		}
	}
	// range bounds and limits
	for _, b := range [][2]float64{{1, 10000000}, {1, 10000001}, {0, 10000000}, {-5, 5}, {5, -5}, {3, 3}, {0.5, 2}, {1, 2.5}, {-10000000, 0}, {1e15, 1e15 + 2}} {
		prog := ast.CallN("count", ast.ArrN(ast.N(ast.Range, ast.NumN(b[0]), ast.NumN(b[1]))))
		if !emit(prog, emptyDoc, true, fmt.Sprintf("..|%v|%v|bounds", b[0], b[1])) {
			return
		}
	}
	for _, b := range [][2]float64{{-2, 2}, {0, 3}, {4, 3}} {
		prog := ast.ArrN(ast.N(ast.Range, ast.NumN(b[0]), ast.NumN(b[1])))
		if !emit(prog, emptyDoc, true, fmt.Sprintf("..|%v|%v|items", b[0], b[1])) {
			return
		}
	}
	// membership in a range: the items of a range are its integers only
	rangeDoc := val.MustJSON(`{"lo":1,"hi":5,"xs":[1.5,2.5,3,7.5,"2",-0.0]}`)
	for _, x := range []*ast.Node{ast.NumN(-3), ast.NumN(0), ast.NumN(1), ast.NumN(2.5), ast.NumN(4.999999), ast.NumN(5), ast.NumN(5.5), ast.NumN(7), ast.StrN("2"), ast.BoolN(true), ast.NameN("zz"), ast.PathN(ast.NameN("xs"))} {
		for ri, rg := range []func() *ast.Node{
			func() *ast.Node { return ast.ArrN(ast.N(ast.Range, ast.NumN(1), ast.NumN(5))) },
			func() *ast.Node { return ast.ArrN(ast.N(ast.Range, ast.NumN(-2), ast.NumN(2))) },
			func() *ast.Node { return ast.ArrN(ast.N(ast.Range, ast.NumN(5), ast.NumN(1))) },
			func() *ast.Node { return ast.ArrN(ast.N(ast.Range, ast.NumN(1), ast.NumN(5)), ast.NumN(9)) },
			func() *ast.Node { return ast.ArrN(ast.N(ast.Range, ast.NameN("lo"), ast.NameN("hi"))) },
			func() *ast.Node { return ast.ArrN(ast.N(ast.Range, ast.NumN(0), ast.NumN(10000000))) },
		} {
			if !emit(ast.BinN("in", x.Clone(), rg()), rangeDoc, true, fmt.Sprintf("in-range|%s|%d", ast.Print(x), ri)) {
				return
			}
		}
	}
	for _, pred := range []string{"in"} {
		// ... and as a filter: the members of xs that lie in the range
		p := ast.CallN("count", ast.PredN(ast.NameN("xs"), ast.BinN(pred, ast.VarN(""), ast.ArrN(ast.N(ast.Range, ast.NameN("lo"), ast.NameN("hi"))))))
		if !emit(p, rangeDoc, true, "in-range|filter") {
			return
		}
	}
	rec.Exhaustive("operator_table_cells", cells)
	rec.AllExhaustive()
}

// random operand: a literal or an input member
func genOperand(doc map[string]val.Value) *rapid.Generator[*ast.Node] {
	return rapid.Custom(func(t *rapid.T) *ast.Node {
		var v val.Value
		switch rapid.IntRange(0, 11).Draw(t, "operandKind") {
		case 0, 1, 2:
			v = val.N(rapid.SampledFrom([]float64{0, 1, 2, 3, -1, 0.5, 10, -2.5, 1e308, -1e308, 5e-324, 1e-7, 1e21, 123456789012345680}).Draw(t, "n"))
		case 3:
			x := rapid.Float64().Draw(t, "f")
			if math.IsNaN(x) || math.IsInf(x, 0) {
				x = 1
			}
			v = val.N(x)
		case 4, 5:
			v = val.S(rapid.SampledFrom([]string{"", "a", "b", "ab", "10", "é", "z", "A", "😀", "a b", "<&>"}).Draw(t, "s"))
		case 6:
			v = val.S(rapid.StringN(0, 6, 24).Draw(t, "us"))
		case 7:
			v = val.B(rapid.Bool().Draw(t, "b"))
		case 8:
			v = val.NullV
		case 9:
			v = rapid.SampledFrom([]val.Value{val.MustJSON("[]"), val.MustJSON("[1]"), val.MustJSON("[1,2]"), val.MustJSON(`["a"]`), val.MustJSON(`{"a":1}`), val.MustJSON("{}"), val.MustJSON(`[[1]]`), val.MustJSON(`[0,"a",true]`)}).Draw(t, "c")
		case 10:
			return ast.NameN("zz") // missing
		default:
			if rapid.Bool().Draw(t, "fnKind") {
				return ast.VarN("sum")
			}
			return ast.LambdaN([]string{"x"}, "", ast.VarN("x"))
		}
		if v.K != val.Null && rapid.IntRange(0, 2).Draw(t, "supply") == 0 {
			name := fmt.Sprintf("m%d", len(doc))
			doc[name] = v
			return ast.NameN(name)
		}
		return jsonLit(v)
	})
}

func genOpExpr(depth int, doc map[string]val.Value) *rapid.Generator[*ast.Node] {
	return rapid.Custom(func(t *rapid.T) *ast.Node {
		if depth <= 0 || rapid.IntRange(0, 3).Draw(t, "leaf") == 0 {
			return genOperand(doc).Draw(t, "operand")
		}
		sub := genOpExpr(depth-1, doc)
		switch k := rapid.IntRange(0, 19).Draw(t, "node"); {
		case k < 14:
			op := rapid.SampledFrom(c03BinOps).Draw(t, "op")
			return ast.BinN(op, sub.Draw(t, "l"), sub.Draw(t, "r"))
		case k < 16:
			return ast.N(ast.Neg, sub.Draw(t, "x"))
		case k < 18:
			c := []*ast.Node{sub.Draw(t, "c"), sub.Draw(t, "then")}
			if rapid.Bool().Draw(t, "else") {
				c = append(c, sub.Draw(t, "else"))
			}
			return ast.N(ast.Cond, c...)
		default:
			lo := rapid.SampledFrom([]float64{-2, 0, 1, 3, 0.5}).Draw(t, "lo")
			hi := rapid.SampledFrom([]float64{-3, 0, 2, 5, 2.5}).Draw(t, "hi")
			var l, r *ast.Node = ast.NumN(lo), ast.NumN(hi)
			if rapid.IntRange(0, 3).Draw(t, "rangeOperand") == 0 {
				l = sub.Draw(t, "rl")
			}
			return ast.ArrN(ast.N(ast.Range, l, r))
		}
	})
}

func hasFnEquality(n *ast.Node) bool {
	// equality/membership with a function-valued operand anywhere below is
	// excluded (the statement defines no equality on functions)
	return n.Has(func(x *ast.Node) bool {
		if x.K != ast.Bin || !(x.S == "=" || x.S == "!=" || x.S == "in") {
			return false
		}
		return x.Has(func(y *ast.Node) bool { return y.K == ast.Lambda || (y.K == ast.Var && y.S == "sum") })
	})
}

// TestC03_Random: nested operator expressions.
func TestC03_Random(t *testing.T) {
	rec := begin(t, "C03", "rapid: operator expressions nested up to depth 4 over literal and input-member operands (numbers incl. arbitrary doubles, strings incl. arbitrary Unicode, booleans, null, arrays, objects, functions, missing); non-trivial = at least two operators; distinct by program text + input")
	defer finish(t, rec)
	rapidRun(t, rec, 30000, 400000, func(rt *rapid.T) {
		doc := map[string]val.Value{}
		prog := genOpExpr(rapid.IntRange(1, 4).Draw(rt, "depth"), doc).Draw(rt, "prog")
		if hasFnEquality(prog) {
			rec.Excluded()
			return
		}
		c := mkDiff(prog, val.O(doc), true)
		p, r, m, skip := diffRun(c)
		if skip {
			rec.Class("skipped_" + r.Why)
			return
		}
		ops := 0
		prog.Walk(func(x *ast.Node) {
			if x.K == ast.Bin || x.K == ast.Neg || x.K == ast.Cond || x.K == ast.Range {
				ops++
			}
		})
		rec.Case(c.Text+"|"+c.Input, ops >= 2, diffSample(c, p))
		rec.Class("outcome_" + p.Kind)
		if m != "" && rec.Fail(c, m) {
			rt.Fatalf("%s\n  expr: %s\n  input: %s", m, c.Text, c.Input)
		}
	})
	n := rec.Evaluations()
	if n > 1000 && rec.ClassCount("outcome_"+port.KValue)*100 < n*15 {
		rec.Fatal("generator regression: fewer than 15% of random operator expressions yield a value")
	}
}
