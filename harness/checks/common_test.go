package checks

import (
	"encoding/json"
	"flag"
	"fmt"
	"os"
	"path/filepath"
	"strconv"
	"sync"
	"testing"

	"pgregory.net/rapid"

	"verif/harness/internal/stats"
)

var replayFile = flag.String("replay", "", "replay file to re-run (bypasses rapid)")

func TestMain(m *testing.M) {
	if os.Getenv("VERIF_WORKER") == "1" {
		workerMain()
		os.Exit(0)
	}
	flag.Parse()
	// rapid replays testdata/rapid/**.fail first; never keep or use them.
	os.RemoveAll("testdata/rapid")
	flag.Set("rapid.nofailfile", "true")
	os.Exit(m.Run())
}

func Thorough() bool { return stats.Thorough() }

// replayers: check name -> function that re-runs a saved case and returns the
// failure message ("" = the case passes).
var replayers = map[string]func(json.RawMessage) string{}

func registerReplay(check string, f func(json.RawMessage) string) { replayers[check] = f }

type replayDoc struct {
	Property string          `json:"property"`
	Check    string          `json:"check"`
	Msg      string          `json:"msg"`
	Case     json.RawMessage `json:"case"`
}

func loadReplay(path string) (*replayDoc, error) {
	if !filepath.IsAbs(path) {
		path = filepath.Join(stats.Root(), path)
	}
	b, err := os.ReadFile(path)
	if err != nil {
		return nil, err
	}
	var d replayDoc
	if err := json.Unmarshal(b, &d); err != nil {
		return nil, err
	}
	return &d, nil
}

// runReplay re-runs a replay file. ok=false means the file could not be used.
func runReplay(path string) (msg string, ok bool) {
	d, err := loadReplay(path)
	if err != nil {
		return "cannot load replay: " + err.Error(), false
	}
	f, found := replayers[d.Check]
	if !found {
		return "no replayer for check " + d.Check, false
	}
	return f(d.Case), true
}

// TestReplay re-runs one saved case: go test -run TestReplay -replay=<file>.
func TestReplay(t *testing.T) {
	if *replayFile == "" {
		t.Skip("no -replay file")
	}
	d, err := loadReplay(*replayFile)
	if err != nil {
		t.Fatalf("cannot load %s: %v", *replayFile, err)
	}
	msg, ok := runReplay(*replayFile)
	if !ok {
		t.Fatalf("%s", msg)
	}
	if msg != "" {
		fmt.Printf("VIOLATION property=%s replay=%s\n", d.Property, *replayFile)
		t.Fatalf("replay fails: %s", msg)
	}
	fmt.Printf("REPLAY-PASS property=%s replay=%s\n", d.Property, *replayFile)
}

var witnessOnce = map[string]*sync.Once{}
var witnessMu sync.Mutex

// begin creates the recorder of a check and, once per process and property,
// replays the witnesses of that property's listed findings: an open finding
// that still fails yields a KNOWN-FINDING line and keeps its matcher active; an
// open finding that no longer fails makes its matcher inert; a fixed finding
// that fails again is a violation.
func begin(t *testing.T, id, rule string) *stats.Recorder {
	rec := stats.New(id, t.Name(), rule)
	witnessMu.Lock()
	once, ok := witnessOnce[id]
	if !ok {
		once = &sync.Once{}
		witnessOnce[id] = once
	}
	witnessMu.Unlock()
	once.Do(func() {
		for _, f := range stats.Findings() {
			if f.Property != id || f.Witness == "" {
				continue
			}
			msg, ok := runReplay(f.Witness)
			if !ok {
				rec.Fatal("finding " + f.Slug + ": " + msg)
				continue
			}
			switch {
			case f.State == "open" && msg != "":
				rec.Known(fmt.Sprintf("KNOWN-FINDING: property=%s finding=%s %s", id, f.Slug, f.Text))
			case f.State == "open":
				stats.Deactivate(id, f.Slug)
			case f.State == "fixed" && msg != "":
				rec.ViolationWithFile(filepath.Join(stats.Root(), f.Witness), "fixed finding "+f.Slug+" is back: "+msg)
			}
		}
	})
	return rec
}

// finish closes the recorder and fails the test if violations were recorded.
func finish(t *testing.T, rec *stats.Recorder) {
	rec.Close()
	if n := rec.Violations(); n > 0 && !t.Failed() {
		t.Errorf("%d violation(s) recorded", n)
	}
}

// rapidRun runs prop with the given number of cases (quick / thorough). A run
// that executes fewer cases than requested (rapid stops early at the test
// deadline and still says OK) is marked as "could not do its job".
func rapidRun(t *testing.T, rec *stats.Recorder, quick, thorough int, prop func(*rapid.T)) {
	n := stats.Scale(quick, thorough)
	if s := os.Getenv("VERIF_CHECKS_SCALE"); s != "" {
		if f, err := strconv.ParseFloat(s, 64); err == nil && f > 0 {
			n = int(float64(n) * f)
			if n < 1 {
				n = 1
			}
		}
	}
	flag.Set("rapid.checks", strconv.Itoa(n))
	flag.Set("rapid.shrinktime", "20s")
	calls := 0
	rapid.Check(t, func(rt *rapid.T) {
		calls++
		prop(rt)
	})
	if calls < n {
		rec.Fatal(fmt.Sprintf("%s: only %d of %d requested cases were executed", t.Name(), calls, n))
	}
}

func mustJSON(v interface{}) []byte {
	b, err := json.Marshal(v)
	if err != nil {
		panic(err)
	}
	return b
}

// expectCase is the replay format of hand-written witnesses (fixed findings):
// the program must compile and, evaluated on Input, produce the outcome Want
// (rendered as port.Outcome.String(); WantPrefix relaxes that to a prefix).
type expectCase struct {
	Text       string `json:"text"`
	Input      string `json:"input"`
	Want       string `json:"want,omitempty"`
	WantPrefix string `json:"want_prefix,omitempty"`
	Twice      bool   `json:"twice,omitempty"` // evaluate the same Expr twice; both outcomes must match
}

func init() {
	registerReplay("Expect", func(raw json.RawMessage) string {
		var c expectCase
		if err := json.Unmarshal(raw, &c); err != nil {
			return "bad case: " + err.Error()
		}
		return runExpect(c)
	})
}
