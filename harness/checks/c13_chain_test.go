package checks

// C13, order-by applied to the result of an order-by: x^(t1)^(t2) orders what
// x^(t1) gives, by t2 - the second clause is the major key and, sorting being
// stable, the first one breaks its ties. It must equal (x^(t1))^(t2) and what
// the reference computes.

import (
	"encoding/json"
	"fmt"
	"testing"

	"pgregory.net/rapid"

	"verif/harness/internal/ast"
	"verif/harness/internal/port"
	"verif/harness/internal/val"
)

func init() {
	registerReplay("TestC13_ChainedOrderBy", func(raw json.RawMessage) string {
		var c diffCase
		if err := json.Unmarshal(raw, &c); err != nil {
			return "bad case: " + err.Error()
		}
		if m := diffReplay(raw); m != "" {
			return m
		}
		return c13TwinCheck(c, port.Run(c.Text, c.Input))
	})
}

// parenInner puts the operand of every order-by clause that is itself an
// order-by clause in parentheses.
func parenInner(n *ast.Node) *ast.Node {
	if n.K != ast.Sort || len(n.C) == 0 {
		return n.Clone()
	}
	out := n.Clone()
	if out.C[0].K == ast.Sort {
		out.C[0] = ast.BlockN(parenInner(out.C[0]))
	}
	return out
}

func c13TwinCheck(c diffCase, p port.Outcome) string {
	twin := diffCase{Prog: ast.Normalize(parenInner(c.Prog)), Input: c.Input}
	twin.Text = ast.Print(twin.Prog)
	pt := port.Run(twin.Text, twin.Input)
	if !port.Same(p, pt) && !(p.Kind == port.KError && pt.Kind == port.KError) {
		return fmt.Sprintf("%s gives %s, but with the inner clause in parentheses, %s, the result is %s", c.Text, p.String(), twin.Text, pt.String())
	}
	return ""
}

func TestC13_ChainedOrderBy(t *testing.T) {
	rec := begin(t, "C13", "rapid: two and three order-by clauses applied one after the other, items^(t1)^(t2)[^(t3)], over the arrays and term lists of the order-by check; oracles = reference evaluator and the metamorphic twin with the inner clause in parentheses, (items^(t1))^(t2); non-trivial = >= 2 items; distinct by program + input")
	defer finish(t, rec)
	rapidRun(t, rec, 8000, 120000, func(rt *rapid.T) {
		length := rapid.IntRange(0, 10).Draw(rt, "len")
		if rapid.IntRange(0, 3).Draw(rt, "long") == 0 {
			length = rapid.IntRange(13, 60).Draw(rt, "lenLong")
		}
		items := genSortItems(rt, length, rapid.IntRange(0, 7).Draw(rt, "errorClause") == 0)
		doc := val.O(map[string]val.Value{"items": val.A(items...)})
		nclauses := rapid.IntRange(2, 3).Draw(rt, "clauses")
		var lists [][]sortTerm
		for i := 0; i < nclauses; i++ {
			lists = append(lists, genSortTerms(rt))
		}
		build := func() *ast.Node {
			var cur *ast.Node = ast.NameN("items")
			for i, terms := range lists {
				_ = i
				s := &ast.Node{K: ast.Sort, C: []*ast.Node{cur}}
				for _, tm := range terms {
					s.C = append(s.C, tm.node())
					s.Dirs = append(s.Dirs, tm.dir)
				}
				cur = s
			}
			return cur
		}
		c := mkDiff(build(), doc, true)
		p, r, m, skip := diffRun(c)
		if skip {
			rec.Class("skipped_" + r.Why)
		}
		if skip || m == "" {
			rec.Eval(1)
			if skip {
				p = port.Run(c.Text, c.Input)
			}
			m = c13TwinCheck(c, p)
		}
		rec.Case(c.Text+"|"+c.Input, length >= 2, func() interface{} {
			return map[string]interface{}{"expr": c.Text, "items": length, "outcome": p.Kind + " " + p.Err}
		})
		rec.Class("outcome_" + p.Kind)
		if m != "" && rec.Fail(c, m) {
			rt.Fatalf("%s\n  input: %s", m, trunc(c.Input, 600))
		}
	})
}
