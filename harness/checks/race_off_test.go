//go:build !race

package checks

const raceEnabled = false
