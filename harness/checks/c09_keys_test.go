package checks

// C09, ill-typed data under order-by, $sort, grouping, aggregates and
// predicates: arrays of objects whose members named k and j range over every
// kind of value - number, string, boolean, null, array, object, missing - in
// every combination of three items. Errors and 'no value' are fine; a panic
// or a hang is not.

import (
	"encoding/json"
	"fmt"
	"testing"

	"verif/harness/internal/stats"
)

func init() {
	registerReplay("TestC09_HeterogeneousKeys", func(raw json.RawMessage) string { return replayers["TestC09_Chaotic"](raw) })
}

func TestC09_HeterogeneousKeys(t *testing.T) {
	rec := begin(t, "C09", "enumerated: 30 programs (order-by with 1..2 terms and directions, $sort with and without comparator, grouping, $max/$min/$sum/$average/$join/$distinct/$zip, predicates, comparisons between neighbours) over every array of three objects whose key member is one of {1, 2.5, \"a\", \"\", true, null, [1], [], {}, missing} (1000 arrays; quick tier: a third), with a second member in a fixed pattern; oracle: Eval returns; non-trivial = all; distinct by program + input")
	defer finish(t, rec)
	is := newIsolator()
	defer is.Close()
	rec.Matcher("F-E10", padHugeWidth)
	kinds := []string{`1`, `2.5`, `"a"`, `""`, `true`, `null`, `[1]`, `[]`, `{}`, ``}
	progs := []string{
		`a^(k)`, `a^(>k)`, `a^(k, j)`, `a^(j, k)`, `a^(>j, <k)`, `a^(k).j`, `a^($string(k))`, `a^(k + 1)`, `(a^(k))[0]`, `a.k^($)`,
		`$sort(a.k)`, `$sort(a, function($l, $r){$l.k > $r.k})`, `$sort(a.k, function($l, $r){$l < $r})`,
		`a{k: j}`, `a{$string(k): $count($)}`, `a{j: k}`, `$max(a.k)`, `$min(a.k)`, `$sum(a.k)`, `$average(a.k)`, `$join(a.k)`, `$distinct(a.k)`, `$zip(a.k, a.j)`,
		`a[k]`, `a[k > 1]`, `a[k = j]`, `a[k in [1, "a"]]`, `a.(k < j)`, `$map(a, function($v, $i, $arr){$v.k <= $arr[$i - 1].k})`, `$reduce(a.k, function($x, $y){$x > $y ? $x : $y})`,
	}
	member := func(name, v string) string {
		if v == "" {
			return ""
		}
		return fmt.Sprintf(`"%s":%s,`, name, v)
	}
	shard, nshards := stats.Shard()
	quick := stats.Tier() != "thorough"
	n := 0
	for i, k1 := range kinds {
		for j, k2 := range kinds {
			for l, k3 := range kinds {
				if quick && (i+j+l)%3 != 0 {
					continue
				}
				input := fmt.Sprintf(`{"a":[{%s"j":1,"id":0},{%s"id":1},{%s"j":"x","id":2}]}`, member("k", k1), member("k", k2), member("k", k3))
				for _, p := range progs {
					n++
					if n%nshards != shard {
						continue
					}
					c := evalCase{Text: p, Input: input}
					res, msg := c09Run(is, c)
					c09Record(rec, c, res, true)
					if msg != "" && rec.FailNow(c, msg) >= 6 {
						return
					}
				}
			}
		}
	}
	rec.Exhaustive("key_kind_triples_x_programs", n)
}
