package checks

import (
	"fmt"
	"strings"
	"time"

	"verif/harness/internal/port"
)

func runExpect(c expectCase) string {
	type res struct{ out []port.Outcome }
	ch := make(chan res, 1)
	go func() {
		e, o := port.Compile(c.Text)
		if o != nil {
			ch <- res{[]port.Outcome{*o}}
			return
		}
		n := 1
		if c.Twice {
			n = 2
		}
		var outs []port.Outcome
		for i := 0; i < n; i++ {
			var in interface{}
			if c.Input != "" {
				var err error
				in, err = port.DecodeJSON(c.Input)
				if err != nil {
					ch <- res{[]port.Outcome{{Kind: "bad_input", Msg: err.Error()}}}
					return
				}
			}
			outs = append(outs, port.Eval(e, in))
		}
		ch <- res{outs}
	}()
	select {
	case r := <-ch:
		for i, o := range r.out {
			got := o.String()
			if c.Want != "" && got != c.Want {
				return fmt.Sprintf("evaluation %d: got %q, want %q", i+1, got, c.Want)
			}
			if c.WantPrefix != "" && !strings.HasPrefix(got, c.WantPrefix) {
				return fmt.Sprintf("evaluation %d: got %q, want prefix %q", i+1, got, c.WantPrefix)
			}
		}
		return ""
	case <-time.After(20 * time.Second):
		return "did not return within 20 s"
	}
}
