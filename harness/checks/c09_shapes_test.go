package checks

// C09, values as the built-ins produce them and callables of every kind: the
// results of $split, $keys, $match(...).groups, $reverse($split(...)) etc. are
// not the []interface{} arrays a JSON input or an array constructor gives, and
// functions built by composition, partial application, regex literals and
// transforms are not plain built-ins or lambdas. Every built-in and the
// operators are applied to each producer (alone, with a second operand on
// either side, through ~>, as the context of a path step), and every kind of
// callable is called with argument lists of 0..2 members of every kind.
// Errors and 'no value' are fine; a panic or a hang is not.

import (
	"encoding/json"
	"fmt"
	"testing"

	"verif/harness/internal/stats"
)

func init() {
	registerReplay("TestC09_ProducedValues", func(raw json.RawMessage) string { return replayers["TestC09_Chaotic"](raw) })
	registerReplay("TestC09_Callables", func(raw json.RawMessage) string { return replayers["TestC09_Chaotic"](raw) })
}

var c09Builtins = []string{"string", "length", "substring", "substringBefore", "substringAfter", "uppercase", "lowercase", "trim", "contains", "split", "join", "match", "replace", "formatNumber", "formatBase", "base64encode", "base64decode", "decodeUrl", "decodeUrlComponent", "encodeUrl", "encodeUrlComponent",
	"number", "abs", "floor", "ceil", "round", "power", "sqrt", "sum", "max", "min", "average", "boolean", "not", "exists", "distinct", "count", "reverse", "sort", "shuffle", "zip", "append", "map", "filter", "reduce", "single", "each", "sift", "keys", "lookup", "spread", "merge", "fromMillis", "toMillis", "type", "error"}

var c09Producers = []string{
	`$split("a,b,c", ",")`, `$keys({"a":1,"b":2})`, `$match("ab", /(a)(b)/).groups`, `$reverse($split("a,b", ","))`, `$split("a", ",")`, `$keys({"a":1})`, `$match("ab", /(a)(b)/)`, `$match("abab", /(a)(b)/)`,
	`$spread({"a":1,"b":2})`, `[1..3]`, `$zip([1],[2])`, `$sort($split("b,a", ","))`, `$distinct($split("a,a,b", ","))`, `$shuffle($keys({"a":1,"b":2}))`, `$lookup({"a":[1,2]},"a")`, `$each({"a":1,"b":2}, function($v,$k){$k})`,
	`$sift({"a":1}, function($v){true})`, `$merge([{"a":1}])`, `$append($split("a,b", ","), 1)`, `$map($split("a,b", ","), $uppercase)`, `$filter($keys({"a":1,"b":2}), function($v){true})`, `$split("", "")`, `$keys({})`,
	`/a/`, `$sum`, `function($x){$x}`, `$substring(?, 1)`, `($trim ~> $uppercase)`, `|$|{"x":1}|`, `$match("ab", /(a)(b)/)[0].groups[0]`, `$now()`, `$millis()`, `$string($split("a,b", ","))`,
}

func TestC09_ProducedValues(t *testing.T) {
	rec := begin(t, "C09", fmt.Sprintf("enumerated: %d producer expressions whose values are what the built-ins return (string slices from $split/$keys/$match groups and what $reverse/$sort/$distinct/$shuffle/$append/$map/$filter make of them, match objects, spreads, ranges, function values of every kind, the clock) x every built-in (%d) in the forms $f(P), $f(P, Q), $f(Q, P), $f(P, P), P ~> $f, P.$f(), $f(Q, Q2, P) with 4 second operands, plus 16 operator forms; oracle: Eval returns in the isolated worker; non-trivial = all; distinct by program text", len(c09Producers), len(c09Builtins)))
	defer finish(t, rec)
	is := newIsolator()
	defer is.Close()
	rec.Matcher("F-E10", padHugeWidth)
	seconds := []string{`["c"]`, `1`, `"a"`, `function($v){$v}`}
	shard, nshards := stats.Shard()
	n := 0
	run := func(text string) bool {
		n++
		if n%nshards != shard {
			return true
		}
		c := evalCase{Text: text, Input: `{"a":[1,2],"s":"a,b"}`}
		res, msg := c09Run(is, c)
		c09Record(rec, c, res, true)
		return !(msg != "" && rec.FailNow(c, msg) >= 6)
	}
	for pi, p := range c09Producers {
		if stats.Tier() != "thorough" && pi%2 == 1 && pi > 8 {
			continue // quick tier: all of the first nine, every other one of the rest
		}
		for _, f := range c09Builtins {
			forms := []string{fmt.Sprintf("$%s(%s)", f, p), fmt.Sprintf("%s ~> $%s", p, f), fmt.Sprintf("%s.$%s()", p, f), fmt.Sprintf("$%s(%s, %s)", f, p, p)}
			for _, q := range seconds {
				forms = append(forms, fmt.Sprintf("$%s(%s, %s)", f, p, q), fmt.Sprintf("$%s(%s, %s)", f, q, p), fmt.Sprintf("$%s(%s, %s, %s)", f, q, `"a"`, p))
			}
			for _, text := range forms {
				if f == "pad" {
					continue
				}
				if !run(text) {
					return
				}
			}
		}
		for _, text := range []string{p + ` & "x"`, p + " = " + p, p + "[0]", p + "[-1]", p + "^($)", p + `{$string($): $}`, p + ".*", p + ".**", `"a" in ` + p, "[" + p + ", " + p + "]", p + ` ~> |$|{"x":1}|`, p + "[]", "(" + p + ")." + "a", p + " + 1", "-" + p, p + " ? 1 : 2", p + " < " + p, `{"k": ` + p + `}.k`, p + "[$ = $]", `$count(` + p + `) & $string(` + p + `)`} {
			if !run(text) {
				return
			}
		}
	}
	rec.Exhaustive("producers_x_builtins_x_forms", n)
}

func TestC09_Callables(t *testing.T) {
	callables := []string{`($trim ~> $uppercase)`, `($sum ~> $string ~> $length)`, `(function($x){$exists($x)} ~> $string)`, `$substring(?, 1)`, `$pad(?, ?)`, `$substring(?, 1)(?)`, `function($x){$x}`, `function(){1}`, `function($x)<n:n>{$x}`, `function($x, $y)<s-n?:s>{$x}`,
		`/a/`, `$match(?, /a/)`, `|$|{"a":1}|`, `|a|{"a":1}, "b"|`, `($f := function($x){$x}; $f ~> $f)`, `(/a/ ~> $count)`, `($uppercase ~> /A/)`, `(|$|{"a":1}| ~> $keys)`}
	for _, b := range c09Builtins {
		callables = append(callables, "$"+b)
	}
	callables = append(callables, "$now", "$millis", "$random", "$pad", "$lookup")
	argLists := []string{``, `1`, `"a"`, `1, 2`, `[]`, `{}`, `zz`, `null`, `$sum`, `"a", "b", "c"`, `[1,2], function($v){$v}`, `{"a":1}, "a"`}
	rec := begin(t, "C09", fmt.Sprintf("enumerated: %d callables (every built-in as a bare value, compositions, partials and partials of partials, lambdas with and without signatures, regex literals, transforms, compositions involving regexes and transforms) called with %d argument lists (none, one or two of each kind, a missing value, null, a function) directly, under a string path context, and through ~>; oracle: Eval returns; non-trivial = all; distinct by program text", len(callables), len(argLists)))
	defer finish(t, rec)
	is := newIsolator()
	defer is.Close()
	rec.Matcher("F-E10", padHugeWidth)
	shard, nshards := stats.Shard()
	n := 0
	for _, cal := range callables {
		for _, args := range argLists {
			for _, text := range []string{cal + "(" + args + ")", `"ctx".` + cal + "(" + args + ")", `a.` + cal + "(" + args + ")", `"v" ~> ` + cal + "(" + args + ")", `"v" ~> ` + cal, `$map([1, "a"], ` + cal + `)`, cal + "(" + args + ")(" + args + ")"} {
				n++
				if n%nshards != shard {
					continue
				}
				c := evalCase{Text: text, Input: `{"a":["x","y"],"s":"a,b"}`}
				res, msg := c09Run(is, c)
				c09Record(rec, c, res, true)
				if msg != "" && rec.FailNow(c, msg) >= 6 {
					return
				}
			}
		}
	}
	rec.Exhaustive("callables_x_argument_lists_x_call_forms", n)
}
