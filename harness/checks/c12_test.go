package checks

// C12 — Lexical scoping, closures, signatures, partial application and
// chaining. Oracle: the reference evaluator; for the signature clause also a
// direct "fits" table; for context-defaulting built-ins also the metamorphic
// relation P.$f(args) == P.$f($, args).

import (
	"fmt"
	"strings"
	"testing"

	"pgregory.net/rapid"

	"verif/harness/internal/ast"
	"verif/harness/internal/port"
	"verif/harness/internal/stats"
	"verif/harness/internal/val"
)

func init() {
	for _, n := range []string{"TestC12_Scoping", "TestC12_Signatures", "TestC12_SignaturesRandom", "TestC12_Calls", "TestC12_Context", "TestC12_Findings"} {
		registerReplay(n, diffReplay)
	}
}

func assign(name string, v *ast.Node) *ast.Node {
	return &ast.Node{K: ast.Assign, S: name, C: []*ast.Node{v}}
}

// ---- 1. scoping and closures

type scopeGen struct {
	data []string // data variables in scope (may be rebound and shadowed)
	fns  []string // function variables in scope (assigned once, defined before use)
	nfn  *int
}

func (g scopeGen) child() scopeGen {
	c := g
	c.data = append([]string{}, g.data...)
	c.fns = append([]string{}, g.fns...)
	return c
}

func (g *scopeGen) value(t *rapid.T, depth int) *ast.Node {
	lit := func() *ast.Node {
		return ast.NumN(float64(rapid.IntRange(0, 5).Draw(t, "lit")))
	}
	if depth <= 0 {
		switch rapid.IntRange(0, 3).Draw(t, "leaf") {
		case 0:
			if len(g.data) > 0 {
				return ast.VarN(rapid.SampledFrom(g.data).Draw(t, "var"))
			}
		case 1:
			return ast.NameN(rapid.SampledFrom([]string{"a", "b", "zz"}).Draw(t, "name"))
		case 2:
			return ast.VarN(rapid.SampledFrom([]string{"x", "y", "z"}).Draw(t, "anyvar")) // possibly unbound
		}
		return lit()
	}
	switch k := rapid.IntRange(0, 19).Draw(t, "valueKind"); {
	case k < 4:
		return g.value(t, 0)
	case k < 7:
		op := rapid.SampledFrom([]string{"+", "*", "-", "&"}).Draw(t, "op")
		return ast.BinN(op, g.value(t, depth-1), g.value(t, depth-1))
	case k < 9:
		return ast.ArrN(g.value(t, depth-1), g.value(t, depth-1))
	case k < 11:
		return ast.N(ast.Cond, ast.BinN(">", g.value(t, depth-1), lit()), g.value(t, depth-1), g.value(t, depth-1))
	case k < 14:
		return g.block(t, depth-1)
	case k < 17:
		return g.callFn(t, depth-1)
	case k < 18: // immediately-invoked lambda with shadowing parameters
		params := []string{rapid.SampledFrom([]string{"x", "y", "z"}).Draw(t, "p")}
		inner := g.child()
		inner.data = append(inner.data, params...)
		return ast.CallE(ast.LambdaN(params, "", inner.value(t, depth-1)), g.value(t, depth-1))
	case k < 19: // higher-order built-in with a closure over the current scope
		inner := g.child()
		inner.data = append(inner.data, "v")
		hof := rapid.SampledFrom([]string{"map", "filter"}).Draw(t, "hof")
		return ast.CallN(hof, ast.ArrN(lit(), lit(), lit()), ast.LambdaN([]string{"v"}, "", inner.value(t, depth-1)))
	}
	inner := g.child()
	inner.data = append(inner.data, "acc", "v")
	return ast.CallN("reduce", ast.ArrN(lit(), lit(), lit()), ast.LambdaN([]string{"acc", "v"}, "", inner.value(t, depth-1)), lit())
}

func (g *scopeGen) callFn(t *rapid.T, depth int) *ast.Node {
	if len(g.fns) == 0 {
		return g.value(t, depth)
	}
	f := rapid.SampledFrom(g.fns).Draw(t, "fn")
	n := rapid.IntRange(0, 3).Draw(t, "nargs") // missing and surplus arguments included
	args := make([]*ast.Node, n)
	for i := range args {
		args[i] = g.value(t, depth)
	}
	return ast.CallE(ast.VarN(f), args...)
}

func (g *scopeGen) lambda(t *rapid.T, depth int) *ast.Node {
	np := rapid.IntRange(0, 3).Draw(t, "nparams")
	names := []string{"x", "y", "z"}
	params := names[:np]
	inner := g.child()
	inner.data = append(inner.data, params...)
	body := inner.value(t, depth)
	if rapid.IntRange(0, 4).Draw(t, "bareAssign") == 0 {
		// a function body that is a bare assignment binds in the call's own
		// scope: neither the defining block nor the caller may see it
		body = assign(rapid.SampledFrom([]string{"x", "y", "z"}).Draw(t, "bvar"), body)
	}
	return ast.LambdaN(append([]string{}, params...), "", body)
}

func (g *scopeGen) block(t *rapid.T, depth int) *ast.Node {
	inner := g.child()
	n := rapid.IntRange(1, 4).Draw(t, "stmts")
	var exprs []*ast.Node
	var obs []string
	for i := 0; i < n; i++ {
		switch rapid.IntRange(0, 8).Draw(t, "stmt") {
		case 6: // an inner block whose only assignment is nested in a conditional / array / call argument: still a scope of its own
			v := rapid.SampledFrom([]string{"x", "y", "z"}).Draw(t, "nvar")
			nested := assign(v, inner.value(t, 0))
			var holder *ast.Node
			switch rapid.IntRange(0, 3).Draw(t, "holder") {
			case 0:
				holder = ast.N(ast.Cond, ast.BoolN(true), nested, ast.NumN(0))
			case 1:
				holder = ast.ArrN(nested, ast.VarN(v))
			case 2:
				holder = ast.CallN("string", nested)
			default:
				holder = ast.N(ast.Cond, ast.BinN("=", ast.VarN(v), ast.VarN(v)), nested, ast.StrN("else"))
			}
			exprs = append(exprs, ast.BlockN(holder))
			// the enclosing block's binding, if any, is what is read here; the
			// observation is kept in a variable and becomes part of the block's value
			*g.nfn++
			o := fmt.Sprintf("obs%d", *g.nfn)
			exprs = append(exprs, assign(o, ast.ArrN(ast.StrN("after-inner-block"), ast.VarN(v))))
			obs = append(obs, o)
		case 7: // a closure produced below the block that binds the variable, called before and after a rebind
			*g.nfn++
			v := rapid.SampledFrom([]string{"x", "y", "z"}).Draw(t, "cvar")
			mk, get, before := fmt.Sprintf("mk%d", *g.nfn), fmt.Sprintf("get%d", *g.nfn), fmt.Sprintf("before%d", *g.nfn)
			exprs = append(exprs, assign(v, inner.value(t, 0)))
			var factory *ast.Node
			if rapid.Bool().Draw(t, "viaBlock") {
				factory = ast.BlockN(ast.NumN(0), ast.LambdaN(nil, "", ast.VarN(v))) // a lambda produced by an inner block
				exprs = append(exprs, assign(get, factory))
			} else {
				factory = ast.LambdaN(nil, "", ast.LambdaN(nil, "", ast.VarN(v))) // a lambda returned from a lambda call
				exprs = append(exprs, assign(mk, factory), assign(get, ast.CallE(ast.VarN(mk))))
			}
			o := fmt.Sprintf("obs%d", *g.nfn)
			exprs = append(exprs, assign(before, ast.CallE(ast.VarN(get))), assign(v, inner.value(t, 0)),
				assign(o, ast.ArrN(ast.StrN("closure"), ast.VarN(before), ast.CallE(ast.VarN(get)), ast.VarN(v))))
			obs = append(obs, o)
			inner.data = append(inner.data, v)
		case 0, 1, 2: // bind or rebind a data variable
			v := rapid.SampledFrom([]string{"x", "y", "z"}).Draw(t, "dvar")
			exprs = append(exprs, assign(v, inner.value(t, depth)))
			inner.data = append(inner.data, v)
		case 3: // bind a function variable once
			*g.nfn++
			f := fmt.Sprintf("f%d", *g.nfn)
			exprs = append(exprs, assign(f, inner.lambda(t, depth)))
			inner.fns = append(inner.fns, f)
		case 4: // bounded recursion through the variable the function is bound to
			*g.nfn++
			f := fmt.Sprintf("r%d", *g.nfn)
			body := ast.N(ast.Cond, ast.BinN("<=", ast.VarN("n"), ast.NumN(0)), inner.value(t, 0),
				ast.BinN("+", ast.NumN(1), ast.CallE(ast.VarN(f), ast.BinN("-", ast.VarN("n"), ast.NumN(1)))))
			exprs = append(exprs, assign(f, ast.LambdaN([]string{"n"}, "", body)))
			exprs = append(exprs, ast.CallE(ast.VarN(f), ast.NumN(float64(rapid.IntRange(0, 6).Draw(t, "depthArg")))))
		default:
			exprs = append(exprs, inner.value(t, depth))
		}
	}
	last := inner.value(t, depth)
	if len(obs) > 0 {
		// what the statements above observed is part of the block's value
		items := []*ast.Node{}
		for _, o := range obs {
			items = append(items, ast.VarN(o))
		}
		last = ast.N(ast.Obj, ast.StrN("observed"), ast.ArrN(items...), ast.StrN("value"), last)
	}
	exprs = append(exprs, last)
	return ast.BlockN(exprs...)
}

func hasClosureOverRebound(prog *ast.Node) bool {
	// a lambda, and a variable that is assigned at least twice or that is also a parameter name
	hasLambda := false
	assigned := map[string]int{}
	params := map[string]bool{}
	prog.Walk(func(n *ast.Node) {
		switch n.K {
		case ast.Lambda:
			hasLambda = true
			for _, p := range n.Params {
				params[p] = true
			}
		case ast.Assign:
			assigned[n.S]++
		}
	})
	if !hasLambda {
		return false
	}
	for v, c := range assigned {
		if c >= 2 || params[v] {
			return true
		}
	}
	return false
}

// TestC12_Scoping: blocks, shadowing, closures, recursion, missing/surplus arguments.
func TestC12_Scoping(t *testing.T) {
	rec := begin(t, "C12", "rapid: nested blocks with assignments over a 3-letter variable alphabet (rebinding and shadowing by inner blocks and by parameters), lambdas of 0..3 parameters defined in blocks, returned, called with missing and surplus arguments, passed to $map/$filter/$reduce, bounded recursion through the bound variable, lambdas capturing the context item; non-trivial = a lambda plus a variable that is rebound or shadowed; distinct by program text + input")
	defer finish(t, rec)
	docs := []val.Value{val.MustJSON(`{"a":1,"b":[2,3]}`), val.MustJSON(`{"a":{"b":5},"b":"s"}`), val.MustJSON(`[{"a":1},{"a":2}]`), val.MustJSON(`7`)}
	rapidRun(t, rec, 30000, 400000, func(rt *rapid.T) {
		n := 0
		g := &scopeGen{nfn: &n}
		var prog *ast.Node
		if rapid.IntRange(0, 4).Draw(rt, "ctxLambda") == 0 {
			// a function keeps the context item of its definition site
			prog = ast.BlockN(assign("k", ast.PathN(ast.NameN("a"), ast.LambdaN(nil, "", ast.ArrN(ast.VarN(""), ast.NameN("b"))))), ast.PathN(ast.NameN("b"), ast.CallE(ast.VarN("k"))), g.block(rt, 1))
		} else {
			prog = g.block(rt, rapid.IntRange(1, 3).Draw(rt, "depth"))
		}
		doc := rapid.SampledFrom(docs).Draw(rt, "doc")
		c := mkDiff(prog, doc, true)
		p, r, m, skip := diffRun(c)
		if skip {
			rec.Class("skipped_" + r.Why)
			return
		}
		rec.Case(c.Text+"|"+c.Input, hasClosureOverRebound(prog), diffSample(c, p))
		rec.Class("outcome_" + p.Kind)
		if m != "" && rec.Fail(c, m) {
			rt.Fatalf("%s\n  expr: %s\n  input: %s", m, c.Text, c.Input)
		}
	})
}

// ---- 2. signatures

type argKind struct {
	name string
	node func() *ast.Node
	val  val.Value
}

func c12ArgKinds() []argKind {
	lit := func(js string) argKind {
		v := val.MustJSON(js)
		return argKind{js, func() *ast.Node { return jsonLit(v) }, v}
	}
	return []argKind{
		lit(`1`), lit(`"s"`), lit(`true`), lit(`null`), lit(`[1,2]`), lit(`["a"]`), lit(`[1,"a"]`), lit(`[]`), lit(`{"k":1}`),
		lit(`[[1],[2,3]]`), lit(`[["x"]]`), lit(`[[1],[2,"a"]]`), lit(`[[["s"]]]`),
		{"fn", func() *ast.Node { return ast.VarN("sum") }, val.Value{K: val.Fn}},
		{"missing", func() *ast.Node { return ast.NameN("zz") }, val.U},
	}
}

var c12Types = []string{"n", "s", "b", "l", "a", "o", "f", "j", "x", "(ns)", "(bl)", "(ao)", "(sf)", "a<n>", "a<s>", "a<(ns)>", "a<a<n>>", "a<a<(ns)>>", "a<a<a<s>>>"}
var c12Opts = []string{"", "?", "+", "-"}

func sigProgram(sig string, nparams int, args []*ast.Node) *ast.Node {
	params := []string{"p", "q", "r"}[:nparams]
	body := ast.N(ast.Obj)
	for _, p := range params {
		body.C = append(body.C, ast.StrN(p), ast.VarN(p))
	}
	return ast.CallE(ast.LambdaN(append([]string{}, params...), sig, body), args...)
}

// fitsDirect is the statement's "fits" relation for one present value and one
// type specification, written independently of the reference evaluator.
func fitsDirect(v val.Value, typ string) bool {
	sub := ""
	if i := strings.IndexByte(typ, '<'); i >= 0 {
		sub = typ[i+1 : len(typ)-1]
		typ = typ[:i]
	}
	typ = strings.Trim(typ, "()")
	has := func(c string) bool { return strings.Contains(typ, c) }
	if has("x") {
		return true
	}
	switch v.K {
	case val.Num:
		return has("n") || has("j")
	case val.Str:
		return has("s") || has("j")
	case val.Bool:
		return has("b") || has("j")
	case val.Null:
		return has("l") || has("j")
	case val.Obj:
		return has("o") || has("j")
	case val.Fn:
		return has("f")
	case val.Arr:
		if has("j") {
			return true
		}
		if !has("a") {
			return false
		}
		if sub == "" {
			return true
		}
		for _, e := range v.A {
			if !fitsDirect(e, sub) {
				return false
			}
		}
		return true
	}
	return false
}

// TestC12_Signatures: every one-parameter signature against every argument
// list of length 0..2, judged by the reference and by the direct fits table.
func TestC12_Signatures(t *testing.T) {
	rec := begin(t, "C12", "exhaustive: every one-parameter signature (19 type specifications incl. array subtypes nested two and three deep x options none/?/+/-) against every argument list of length 0..2 over 15 value kinds (number, string, boolean, null, arrays, arrays of arrays, object, function, missing) under two context items; judged by the reference evaluator and by a direct 'fits' relation for the error/no-error decision; every (signature, argument list) pair is non-trivial and distinct")
	defer finish(t, rec)
	kinds := c12ArgKinds()
	ctxs := []val.Value{val.S("ctx"), val.N(5)}
	n := 0
	for _, typ := range c12Types {
		for _, opt := range c12Opts {
			sig := typ + opt
			var lists [][]argKind
			lists = append(lists, nil)
			for _, a := range kinds {
				lists = append(lists, []argKind{a})
				for _, b := range kinds {
					lists = append(lists, []argKind{a, b})
				}
			}
			for _, list := range lists {
				for ci, ctx := range ctxs {
					var args []*ast.Node
					names := ""
					for _, a := range list {
						args = append(args, a.node())
						names += a.name + ","
					}
					prog := sigProgram(sig, 1, args)
					c := mkDiff(prog, ctx, true)
					p, _, m, skip := diffRun(c)
					n++
					if skip {
						rec.Class("skipped")
						continue
					}
					rec.Case(fmt.Sprintf("%s|%s|%d", sig, names, ci), true, diffSample(c, p))
					rec.Class("outcome_" + p.Kind + "_" + p.Err)
					if m == "" {
						m = sigDirect(typ, opt, list, ctx, p)
					}
					if m != "" && rec.FailNow(c, m) >= 8 {
						return
					}
				}
			}
		}
	}
	rec.Exhaustive("one_parameter_signatures_x_argument_lists", n)
	rec.AllExhaustive()
}

// sigDirect decides, from the statement alone, whether a call with one declared
// parameter must fail with a count error, a type error, or succeed.
func sigDirect(typ, opt string, list []argKind, ctx val.Value, p port.Outcome) string {
	var args []val.Value
	for _, a := range list {
		args = append(args, a.val)
	}
	if len(args) == 0 && opt == "-" {
		args = []val.Value{ctx}
	}
	if len(args) == 0 && opt == "?" {
		args = []val.Value{val.U}
	}
	want := ""
	switch {
	case len(args) == 0:
		want = "ArgCount"
	case len(args) > 1 && opt != "+":
		want = "ArgCount"
	default:
		for _, a := range args {
			if a.IsUndef() {
				continue
			}
			x := a
			if (typ == "a" || strings.HasPrefix(typ, "a<")) && x.K != val.Arr {
				x = val.A(x) // a lone array type (with or without subtype) accepts a single value as a one-member array
			}
			if !fitsDirect(x, typ) {
				want = "ArgType"
				break
			}
		}
	}
	got := ""
	if p.Kind == port.KError {
		got = p.Err
	}
	if want != got {
		return fmt.Sprintf("signature <%s%s> with arguments %v: the statement requires %q, the library gives %s", typ, opt, names(list), want, p.String())
	}
	return ""
}

func names(list []argKind) []string {
	var s []string
	for _, a := range list {
		s = append(s, a.name)
	}
	return s
}

// TestC12_SignaturesRandom: signatures of 1..3 parameters against argument lists of length 0..4.
func TestC12_SignaturesRandom(t *testing.T) {
	rec := begin(t, "C12", "rapid: signatures of 1..3 parameters (type letters, unions, array subtypes, options ? + - in any position) against argument lists of length 0..4 over the 15 value kinds; oracle = reference evaluator (argument count/type errors and the values actually bound to the parameters); non-trivial = every case; distinct by signature + argument list + context")
	defer finish(t, rec)
	kinds := c12ArgKinds()
	rapidRun(t, rec, 30000, 400000, func(rt *rapid.T) {
		np := rapid.IntRange(1, 3).Draw(rt, "nparams")
		sig := ""
		for i := 0; i < np; i++ {
			sig += rapid.SampledFrom(c12Types).Draw(rt, "type")
			switch {
			case i == np-1:
				sig += rapid.SampledFrom([]string{"", "", "?", "+"}).Draw(rt, "lastOpt")
			case i == 0:
				sig += rapid.SampledFrom([]string{"", "", "-", "?"}).Draw(rt, "firstOpt")
			default:
				sig += rapid.SampledFrom([]string{"", "?"}).Draw(rt, "midOpt")
			}
		}
		if rapid.IntRange(0, 4).Draw(rt, "returnType") == 0 {
			sig += ":" + rapid.SampledFrom([]string{"n", "s", "a<n>"}).Draw(rt, "ret")
		}
		na := np + rapid.SampledFrom([]int{0, 0, 0, 0, -1, -1, 1, 1, 2, -2}).Draw(rt, "nargsDelta")
		if na < 0 {
			na = 0
		}
		if na > 4 {
			na = 4
		}
		var args []*ast.Node
		for i := 0; i < na; i++ {
			args = append(args, rapid.SampledFrom(kinds).Draw(rt, "arg").node())
		}
		ctx := rapid.SampledFrom([]val.Value{val.S("ctx"), val.N(5), val.MustJSON(`[1]`), val.MustJSON(`{"a":1}`)}).Draw(rt, "ctx")
		c := mkDiff(sigProgram(sig, np, args), ctx, true)
		p, r, m, skip := diffRun(c)
		if skip {
			rec.Class("skipped_" + r.Why)
			return
		}
		rec.Case(c.Text+"|"+c.Input, true, diffSample(c, p))
		rec.Class("outcome_" + p.Kind + "_" + p.Err)
		if m != "" && rec.Fail(c, m) {
			rt.Fatalf("%s\n  expr: %s\n  input: %s", m, c.Text, c.Input)
		}
	})
}

// ---- 3 + 4. partial application and chains

type callGen struct{}

func (callGen) operand(t *rapid.T) *ast.Node {
	switch rapid.IntRange(0, 6).Draw(t, "operand") {
	case 0:
		return ast.NumN(float64(rapid.IntRange(0, 9).Draw(t, "n")))
	case 1:
		return ast.StrN(rapid.SampledFrom([]string{"ab", "hello world", "", "x-y"}).Draw(t, "s"))
	case 2:
		return ast.NameN(rapid.SampledFrom([]string{"a", "n", "arr", "zz"}).Draw(t, "name"))
	case 3:
		return ast.ArrN(ast.NumN(3), ast.NumN(1), ast.NumN(2))
	case 4:
		return ast.NameN("zz")
	}
	return ast.NumN(2)
}

// fn returns a function-valued expression and its arity
func (g callGen) fn(t *rapid.T, depth int) (*ast.Node, int) {
	switch rapid.IntRange(0, 9).Draw(t, "fnKind") {
	case 0, 1: // lambda returning its parameters
		np := rapid.IntRange(1, 4).Draw(t, "arity")
		params := []string{"p", "q", "r", "s"}[:np]
		body := ast.N(ast.Obj)
		for _, p := range params {
			body.C = append(body.C, ast.StrN(p), ast.VarN(p))
		}
		return ast.LambdaN(append([]string{}, params...), "", body), np
	case 2:
		return ast.LambdaN([]string{"p", "q"}, "", ast.BinN("&", ast.CallN("string", ast.VarN("p")), ast.CallN("string", ast.VarN("q")))), 2
	case 3, 4: // built-in
		b := rapid.SampledFrom([]struct {
			n string
			a int
		}{{"substring", 3}, {"pad", 3}, {"append", 2}, {"substringBefore", 2}, {"power", 2}, {"join", 2}, {"uppercase", 1}, {"sum", 1}, {"count", 1}, {"string", 1}, {"round", 2}, {"reverse", 1}, {"sort", 1}, {"contains", 2}, {"split", 2}}).Draw(t, "builtin")
		return ast.VarN(b.n), b.a
	case 5, 6: // partial application with placeholders in any position
		if depth > 0 {
			f, ar := g.fn(t, depth-1)
			if f.K == ast.Lambda {
				f = ast.BlockN(f)
			}
			if ar == 0 {
				ar = 1
			}
			args := make([]*ast.Node, ar)
			holes := 0
			for i := range args {
				if rapid.IntRange(0, 1).Draw(t, "hole") == 0 {
					args[i] = ast.N(ast.Hole)
					holes++
				} else {
					args[i] = g.operand(t)
				}
			}
			if holes == 0 {
				i := rapid.IntRange(0, ar-1).Draw(t, "forceHole")
				args[i] = ast.N(ast.Hole)
				holes = 1
			}
			return &ast.Node{K: ast.Partial, C: append([]*ast.Node{f}, args...)}, holes
		}
	case 7: // composition f ~> g
		if depth > 0 {
			f, _ := g.fn(t, depth-1)
			h, _ := g.fn(t, depth-1)
			return ast.BlockN(ast.N(ast.Chain, f, h)), 1
		}
	case 8: // not a function at all
		return ast.BlockN(g.operand(t)), 1
	}
	return ast.VarN("string"), 1
}

func (g callGen) program(t *rapid.T) *ast.Node {
	switch rapid.IntRange(0, 7).Draw(t, "shape") {
	case 6, 7: // a composed function extended in two or three different ways; all versions are then applied
		one := func(tag string) *ast.Node {
			return ast.VarN(rapid.SampledFrom([]string{"string", "uppercase", "lowercase", "trim", "length", "count", "reverse", "sum", "sort", "boolean", "type", "abs", "number"}).Draw(t, tag))
		}
		nb := rapid.IntRange(2, 5).Draw(t, "baseLen")
		base := one("b0")
		for i := 1; i < nb; i++ {
			base = ast.N(ast.Chain, base, one("bi"))
		}
		block := []*ast.Node{assign("base", base)}
		var calls []*ast.Node
		arg := g.operand(t)
		ne := rapid.IntRange(2, 3).Draw(t, "extensions")
		for i := 0; i < ne; i++ {
			name := []string{"x", "y", "z"}[i]
			ext := ast.N(ast.Chain, ast.VarN("base"), one("ext"))
			if rapid.IntRange(0, 3).Draw(t, "twice") == 0 {
				ext = ast.N(ast.Chain, ext, one("ext2"))
			}
			block = append(block, assign(name, ext))
			calls = append(calls, ast.CallE(ast.VarN(name), arg.Clone()))
		}
		calls = append(calls, ast.CallE(ast.VarN("base"), arg.Clone()))
		// earlier extensions are applied after the later ones were built
		block = append(block, ast.ArrN(calls...))
		return ast.BlockN(block...)
	case 0, 1: // chain of length 1..4: v ~> f1 ~> f2(...) ...
		e := g.operand(t)
		if rapid.IntRange(0, 5).Draw(t, "fnHead") == 0 {
			e, _ = g.fn(t, 1)
		}
		n := rapid.IntRange(1, 4).Draw(t, "links")
		for i := 0; i < n; i++ {
			f, ar := g.fn(t, 1)
			if rapid.Bool().Draw(t, "asCall") && f.K == ast.Var {
				args := []*ast.Node{}
				for j := 1; j < ar; j++ {
					args = append(args, g.operand(t))
				}
				e = ast.N(ast.Chain, e, ast.CallE(f, args...))
			} else {
				e = ast.N(ast.Chain, e, f)
			}
		}
		return e
	case 2, 3: // direct call of a function-valued expression
		f, ar := g.fn(t, 2)
		if f.K == ast.Lambda {
			f = ast.BlockN(f)
		}
		n := rapid.IntRange(0, ar+1).Draw(t, "nargs")
		args := make([]*ast.Node, n)
		for i := range args {
			args[i] = g.operand(t)
		}
		return ast.CallE(f, args...)
	case 4: // bound, then used twice
		f, ar := g.fn(t, 2)
		args := make([]*ast.Node, ar)
		for i := range args {
			args[i] = g.operand(t)
		}
		return ast.BlockN(assign("f", f), ast.ArrN(ast.CallE(ast.VarN("f"), args...), ast.N(ast.Chain, g.operand(t), ast.VarN("f"))))
	}
	// partial of a non-function
	return &ast.Node{K: ast.Partial, C: []*ast.Node{ast.BlockN(g.operand(t)), ast.N(ast.Hole)}}
}

// TestC12_Calls: partial application and chaining.
func TestC12_Calls(t *testing.T) {
	rec := begin(t, "C12", "rapid: partial applications with placeholders in every position of lambdas (arity 1..4) and built-ins, nested partials, chains of length 1..4 mixing values, calls, bare functions, partials, lambdas and compositions, calls with too few/too many arguments, non-functions in function position; oracle = reference evaluator (f(?,x)(y) = f(y,x); v ~> f(a) = f(v,a); f ~> g composes; ErrNonCallable / ErrNonCallableApply / ErrNonCallablePartial); non-trivial = a partial with >= 2 arguments or a chain with >= 2 links; distinct by program text")
	defer finish(t, rec)
	g := callGen{}
	doc := val.MustJSON(`{"a":"hello world","n":4,"arr":[3,1,2]}`)
	rapidRun(t, rec, 30000, 400000, func(rt *rapid.T) {
		prog := g.program(rt)
		c := mkDiff(prog, doc, true)
		p, r, m, skip := diffRun(c)
		if skip {
			rec.Class("skipped_" + r.Why)
			return
		}
		links, bigPartial := 0, false
		prog.Walk(func(n *ast.Node) {
			if n.K == ast.Chain {
				links++
			}
			if n.K == ast.Partial && len(n.C) >= 3 {
				bigPartial = true
			}
		})
		rec.Case(c.Text, links >= 2 || bigPartial, diffSample(c, p))
		rec.Class("outcome_" + p.Kind + "_" + p.Err)
		if m != "" && rec.Fail(c, m) {
			rt.Fatalf("%s\n  expr: %s", m, c.Text)
		}
	})
}

// ---- 5. context-defaulting built-ins

type ctxFn struct {
	name string
	args func(t *rapid.T, inner func() *ast.Node) []*ast.Node // explicit arguments that trigger the context default
}

func c12CtxFns() []ctxFn {
	none := func(t *rapid.T, inner func() *ast.Node) []*ast.Node { return nil }
	str := func(t *rapid.T, inner func() *ast.Node) []*ast.Node {
		if rapid.IntRange(0, 2).Draw(t, "nestedArg") == 0 {
			return []*ast.Node{inner()}
		}
		return []*ast.Node{ast.StrN(rapid.SampledFrom([]string{"l", "o", " ", "z"}).Draw(t, "sep"))}
	}
	num := func(t *rapid.T, inner func() *ast.Node) []*ast.Node {
		return []*ast.Node{ast.NumN(float64(rapid.IntRange(-3, 8).Draw(t, "k")))}
	}
	fns := []ctxFn{}
	for _, n := range []string{"string", "length", "uppercase", "lowercase", "trim", "number", "boolean", "not", "type", "abs", "floor", "ceil", "round", "sqrt", "keys", "spread"} {
		fns = append(fns, ctxFn{n, none})
	}
	fns = append(fns,
		ctxFn{"substringBefore", str}, ctxFn{"substringAfter", str}, ctxFn{"contains", str}, ctxFn{"split", str},
		ctxFn{"substring", num}, ctxFn{"pad", num}, ctxFn{"power", num},
		ctxFn{"substring", func(t *rapid.T, inner func() *ast.Node) []*ast.Node {
			return []*ast.Node{ast.NumN(float64(rapid.IntRange(0, 3).Draw(t, "s"))), ast.NumN(float64(rapid.IntRange(0, 4).Draw(t, "l")))}
		}},
		ctxFn{"pad", func(t *rapid.T, inner func() *ast.Node) []*ast.Node {
			return []*ast.Node{ast.NumN(float64(rapid.IntRange(-8, 8).Draw(t, "w"))), ast.StrN("*")}
		}},
		ctxFn{"replace", func(t *rapid.T, inner func() *ast.Node) []*ast.Node {
			return []*ast.Node{ast.StrN("l"), ast.StrN("L")}
		}},
	)
	return fns
}

var c12CtxDoc = `{"a":"hello world","b":{"c":"low tide","d":"x y"},"n":4.5,"arr":["x y","lo z"],"o":{"k":"v"},"items":[{"s":"one two","m":2},{"s":"hello","m":-3}]}`

func ctxPath(t *rapid.T) *ast.Node {
	return rapid.SampledFrom([]*ast.Node{
		ast.NameN("a"), ast.PathN(ast.NameN("b"), ast.NameN("c")), ast.PathN(ast.NameN("b"), ast.NameN("d")), ast.NameN("n"), ast.NameN("arr"),
		ast.PathN(ast.NameN("items"), ast.NameN("s")), ast.PathN(ast.NameN("items"), ast.NameN("m")), ast.NameN("o"), ast.PathN(ast.VarN("$"), ast.NameN("a")),
		ast.PathN(ast.VarN("$"), ast.NameN("b"), ast.NameN("c")),
	}).Draw(t, "ctxPath")
}

// ctxCall builds P.$f(args) and its explicit twin P.$f($, args); args may nest
// further context-defaulting calls under other path contexts.
func ctxCall(t *rapid.T, fns []ctxFn, depth int) (implicit, explicit *ast.Node) {
	f := rapid.SampledFrom(fns).Draw(t, "fn")
	var inner func() *ast.Node
	var innerExplicit *ast.Node
	inner = func() *ast.Node {
		if depth <= 0 {
			return ast.StrN("o")
		}
		i, e := ctxCall(t, fns, depth-1)
		innerExplicit = e
		return i
	}
	args := f.args(t, inner)
	p := ctxPath(t)
	// the callee: the built-in's name, or an expression that evaluates to the
	// built-in (the context item is that of the call site all the same)
	form := rapid.IntRange(0, 9).Draw(t, "calleeForm")
	callee := func() *ast.Node {
		switch form {
		case 0:
			return ast.BlockN(ast.VarN(f.name))
		case 1:
			return ast.BlockN(ast.N(ast.Cond, ast.BoolN(true), ast.VarN(f.name), ast.VarN("string")))
		case 2:
			return ast.BlockN(ast.NumN(0), ast.VarN(f.name))
		case 3:
			return ast.CallE(ast.LambdaN(nil, "", ast.VarN(f.name)))
		}
		return ast.VarN(f.name)
	}
	implicit = ast.PathN(p, ast.CallE(callee(), args...))
	eargs := make([]*ast.Node, len(args))
	for i, a := range args {
		eargs[i] = a.Clone()
		if innerExplicit != nil && a.K == ast.Path && i == 0 {
			eargs[i] = innerExplicit
		}
	}
	explicit = ast.PathN(p.Clone(), ast.CallE(callee(), append([]*ast.Node{ast.VarN("")}, eargs...)...))
	return
}

// TestC12_Context: built-ins that default their first argument to the context
// item use the context of their own call site, however calls are nested.
func TestC12_Context(t *testing.T) {
	rec := begin(t, "C12", "rapid: every context-defaulting built-in under a path context, called by name or through an expression that evaluates to it (parenthesised, conditional, block, returned by a lambda), with argument lists that trigger the default, arguments themselves containing context-defaulting calls under other path contexts ($$.q.$g(...)) nested up to depth 3; oracles = reference evaluator and the metamorphic relation P.$f(args) == P.$f($, args); non-trivial = nesting depth >= 2; distinct by program text")
	defer finish(t, rec)
	fns := c12CtxFns()
	doc := val.MustJSON(c12CtxDoc)
	rapidRun(t, rec, 30000, 400000, func(rt *rapid.T) {
		depth := rapid.IntRange(0, 2).Draw(rt, "depth")
		imp, exp := ctxCall(rt, fns, depth)
		c := mkDiff(imp, doc, true)
		c.Unordered = orderSensitive(imp)
		p, r, m, skip := diffRun(c)
		if skip {
			rec.Class("skipped_" + r.Why)
			return
		}
		nested := 0
		imp.Walk(func(n *ast.Node) {
			if n.K == ast.Call {
				nested++
			}
		})
		rec.Case(c.Text, nested >= 2, diffSample(c, p))
		rec.Class("outcome_" + p.Kind)
		if m == "" {
			// metamorphic twin, independent of any context table
			ce := mkDiff(exp, doc, true)
			pe := port.Run(ce.Text, ce.Input)
			rec.Eval(1)
			same := port.Same(p, pe)
			if c.Unordered && p.Kind == port.KValue && pe.Kind == port.KValue {
				same = canonSorted(p.Val) == canonSorted(pe.Val)
			}
			// The default only applies when the explicit arguments have the shape
			// that triggers it; when a nested argument evaluates to no value or to
			// the wrong type the explicit twin fails with an argument error while
			// the implicit form legitimately yields something else. The relation
			// is asserted whenever the explicit twin does not fail that way.
			// Likewise when the implicit form itself is rejected for its argument
			// list: a nested argument of the wrong type (a number where a separator
			// string is needed) means the default was not triggered at all.
			if (pe.Kind == port.KError && (pe.Err == "ArgType" || pe.Err == "ArgCount")) ||
				(p.Kind == port.KError && (p.Err == "ArgType" || p.Err == "ArgCount")) {
				same = true
				rec.Class("twin_not_applicable")
			}
			if !same {
				m = fmt.Sprintf("implicit context form gives %s, the explicit form %s gives %s", p.String(), ce.Text, pe.String())
			}
		}
		if m != "" && rec.Fail(c, m) {
			rt.Fatalf("%s\n  expr: %s", m, c.Text)
		}
	})
}

var _ = stats.Root
