package checks

// C16 — String functions work on Unicode code points and satisfy inverse laws.
// Oracle: references written on []rune for every function of the statement,
// and the laws evaluated as JSONata equalities that must be true. Expressions
// are compiled once and fed through the input document.

import (
	"encoding/json"
	"fmt"
	"math"
	"sort"
	"strings"
	"testing"
	"unicode"

	jsonata "github.com/blues/jsonata-go"
	"pgregory.net/rapid"

	"verif/harness/internal/port"
	"verif/harness/internal/ref"
	"verif/harness/internal/stats"
	"verif/harness/internal/val"
)

var c16Alphabet = []string{"a", "b", " ", "é", "€", "😀", "\t", "-"}

type c16Case struct {
	Fn   string        `json:"fn"`
	Args []interface{} `json:"args"` // JSON values bound to the members p0, p1, … of the input
}

type c16Fn struct {
	name   string
	expr   string                            // uses p0, p1, …
	oracle func(args []interface{}) []string // acceptable outcomes, rendered like port.Outcome.String()
}

func str(v interface{}) string  { s, _ := v.(string); return s }
func num(v interface{}) float64 { f, _ := v.(float64); return f }
func okStr(s string) string     { b, _ := json.Marshal(s); return "value " + string(b) }
func okNum(n float64) string    { return "value " + val.Canon(val.N(n)) }
func okBool(b bool) string      { return fmt.Sprintf("value %v", b) }
func ints(x float64) []int { // floor or truncation of a fractional parameter are both accepted
	a, b := int(math.Floor(x)), int(math.Trunc(x))
	if a == b {
		return []int{a}
	}
	return []int{a, b}
}

func substringRef(s string, start int, hasLen bool, length int) string {
	rs := []rune(s)
	n := len(rs)
	if hasLen && length <= 0 {
		return ""
	}
	if start < 0 {
		start += n
		if start < 0 {
			start = 0
		}
	}
	if start >= n {
		return ""
	}
	end := n
	if hasLen && start+length < n {
		end = start + length
	}
	return string(rs[start:end])
}

func strArray(parts []string) string {
	vs := make([]val.Value, len(parts))
	for i, p := range parts {
		vs[i] = val.S(p)
	}
	return "value " + val.Canon(val.A(vs...))
}

func c16Functions() []c16Fn {
	return []c16Fn{
		{"length", `$length(p0)`, func(a []interface{}) []string { return []string{okNum(float64(len([]rune(str(a[0])))))} }},
		{"length-ctx", `p0.$length()`, func(a []interface{}) []string { return []string{okNum(float64(len([]rune(str(a[0])))))} }},
		{"substring2", `$substring(p0, p1)`, func(a []interface{}) []string {
			var out []string
			for _, st := range ints(num(a[1])) {
				out = append(out, okStr(substringRef(str(a[0]), st, false, 0)))
			}
			return out
		}},
		{"substring3", `$substring(p0, p1, p2)`, func(a []interface{}) []string {
			var out []string
			for _, st := range ints(num(a[1])) {
				for _, l := range ints(num(a[2])) {
					out = append(out, okStr(substringRef(str(a[0]), st, true, l)))
				}
			}
			return out
		}},
		{"substring-ctx", `p0.$substring(p1, p2)`, func(a []interface{}) []string {
			// inside the path the members p1, p2 are looked up on the string: absent
			return nil
		}},
		{"pad2", `$pad(p0, p1)`, func(a []interface{}) []string {
			var out []string
			for _, w := range ints(num(a[1])) {
				out = append(out, okStr(ref.PadRef(str(a[0]), w, " ")))
			}
			return out
		}},
		{"pad3", `$pad(p0, p1, p2)`, func(a []interface{}) []string {
			var out []string
			for _, w := range ints(num(a[1])) {
				out = append(out, okStr(ref.PadRef(str(a[0]), w, str(a[2]))))
			}
			return out
		}},
		{"substringBefore", `$substringBefore(p0, p1)`, func(a []interface{}) []string {
			s, c := str(a[0]), str(a[1])
			if i := strings.Index(s, c); i >= 0 {
				return []string{okStr(s[:i])}
			}
			return []string{okStr(s)}
		}},
		{"substringAfter", `$substringAfter(p0, p1)`, func(a []interface{}) []string {
			s, c := str(a[0]), str(a[1])
			if i := strings.Index(s, c); i >= 0 {
				return []string{okStr(s[i+len(c):])}
			}
			return []string{okStr(s)}
		}},
		{"trim", `$trim(p0)`, func(a []interface{}) []string {
			// whitespace is restricted to the four characters on which every
			// definition of "whitespace" agrees; other Unicode spaces are not judged
			for _, r := range str(a[0]) {
				if unicode.IsSpace(r) && r != ' ' && r != '\t' && r != '\n' && r != '\r' {
					return nil
				}
			}
			return []string{okStr(ref.TrimRef(str(a[0])))}
		}},
		{"uppercase", `$uppercase(p0)`, func(a []interface{}) []string {
			return []string{okStr(strings.Map(unicode.ToUpper, str(a[0])))}
		}},
		{"lowercase", `$lowercase(p0)`, func(a []interface{}) []string {
			return []string{okStr(strings.Map(unicode.ToLower, str(a[0])))}
		}},
		{"contains", `$contains(p0, p1)`, func(a []interface{}) []string { return []string{okBool(strings.Contains(str(a[0]), str(a[1])))} }},
		{"split2", `$split(p0, p1)`, func(a []interface{}) []string { return []string{strArray(ref.SplitRef(str(a[0]), str(a[1])))} }},
		{"split3", `$split(p0, p1, p2)`, func(a []interface{}) []string {
			var out []string
			for _, l := range ints(num(a[2])) {
				if l < 0 {
					out = append(out, "error")
					continue
				}
				parts := ref.SplitRef(str(a[0]), str(a[1]))
				if l < len(parts) {
					parts = parts[:l]
				}
				out = append(out, strArray(parts))
			}
			return out
		}},
		{"join", `$join($split(p0, p1), p2)`, func(a []interface{}) []string {
			return []string{okStr(strings.Join(ref.SplitRef(str(a[0]), str(a[1])), str(a[2])))}
		}},
		{"replace3", `$replace(p0, p1, p2)`, func(a []interface{}) []string {
			if str(a[1]) == "" {
				return []string{"error"}
			}
			return []string{okStr(ref.ReplaceRef(str(a[0]), str(a[1]), str(a[2]), -1))}
		}},
		{"replace4", `$replace(p0, p1, p2, p3)`, func(a []interface{}) []string {
			var out []string
			for _, l := range ints(num(a[3])) {
				if l < 0 || str(a[1]) == "" {
					out = append(out, "error")
					continue
				}
				out = append(out, okStr(ref.ReplaceRef(str(a[0]), str(a[1]), str(a[2]), l)))
			}
			return out
		}},
		// laws, evaluated as JSONata equalities that must be true
		{"law-join-split", `$join($split(p0, p1), p1) = p0`, func(a []interface{}) []string { return []string{"value true"} }},
		{"law-pad-length", `$length($pad(p0, p1)) = $max([$abs(p1), $length(p0)])`, func(a []interface{}) []string {
			if num(a[1]) != math.Trunc(num(a[1])) {
				return nil // the law is stated for integer widths
			}
			return []string{"value true"}
		}},
		{"law-before-after", `$contains(p0, p1) ? $substringBefore(p0, p1) & p1 & $substringAfter(p0, p1) = p0 : true`, func(a []interface{}) []string { return []string{"value true"} }},
		{"law-base64", `$base64decode($base64encode(p0)) = p0`, func(a []interface{}) []string { return []string{"value true"} }},
		{"law-url-component", `$decodeUrlComponent($encodeUrlComponent(p0)) = p0`, func(a []interface{}) []string {
			if str(a[0]) == "�" {
				return nil // the port rejects the lone replacement character by design
			}
			return []string{"value true"}
		}},
		{"law-substring-length", `$length($substring(p0, p1, p2)) <= $max([p2, 0])`, func(a []interface{}) []string { return []string{"value true"} }},
	}
}

// argument shapes per function: s = subject, c = separator (0..3 chars), n = number, p = pad string
var c16Shapes = map[string]string{
	"length": "s", "length-ctx": "s", "substring2": "sn", "substring3": "snn", "pad2": "sn", "pad3": "snp",
	"substringBefore": "sc", "substringAfter": "sc", "trim": "s", "uppercase": "s", "lowercase": "s", "contains": "sc",
	"split2": "sc", "split3": "scn", "join": "scc", "replace3": "scc", "replace4": "sccn",
	"law-join-split": "sc", "law-pad-length": "sn", "law-before-after": "sc", "law-base64": "s", "law-url-component": "s", "law-substring-length": "snn",
}

type c16Engine struct {
	fns   map[string]c16Fn
	exprs map[string]*jsonata.Expr
}

func newC16Engine() *c16Engine {
	e := &c16Engine{fns: map[string]c16Fn{}, exprs: map[string]*jsonata.Expr{}}
	for _, f := range c16Functions() {
		if f.name == "substring-ctx" {
			continue
		}
		ex, o := port.Compile(f.expr)
		if o != nil {
			panic("C16 expression does not compile: " + f.expr + ": " + o.String())
		}
		e.fns[f.name] = f
		e.exprs[f.name] = ex
		// the context-defaulting form of the same call: p0.$f(rest) must agree
		// with $f(p0, rest) (the other arguments are read from the root)
		if c16CtxForms[f.name] && strings.HasPrefix(f.expr, "$") && strings.Contains(f.expr, "(p0") {
			ctx := strings.Replace(f.expr, "(p0, ", "(", 1)
			ctx = strings.Replace(ctx, "(p0)", "()", 1)
			for _, p := range []string{"p1", "p2", "p3"} {
				ctx = strings.ReplaceAll(ctx, p, "$$."+p)
			}
			ctx = "p0." + ctx
			cex, o := port.Compile(ctx)
			if o != nil {
				panic("C16 expression does not compile: " + ctx + ": " + o.String())
			}
			twin := f
			twin.name, twin.expr = f.name+"-ctxform", ctx
			e.fns[twin.name] = twin
			e.exprs[twin.name] = cex
			c16Shapes[twin.name] = c16Shapes[f.name]
		}
	}
	return e
}

// list returns every function / law incl. the context-form twins, by name.
func (e *c16Engine) list() []c16Fn {
	var names []string
	for n := range e.fns {
		names = append(names, n)
	}
	sort.Strings(names)
	out := make([]c16Fn, len(names))
	for i, n := range names {
		out[i] = e.fns[n]
	}
	return out
}

// c16CtxForms: functions whose first argument defaults to the context item
// for the argument shapes used here.
var c16CtxForms = map[string]bool{"substring2": true, "substring3": true, "pad2": true, "pad3": true, "substringBefore": true, "substringAfter": true,
	"trim": true, "uppercase": true, "lowercase": true, "contains": true, "replace3": true, "replace4": true} // not $split: a path step normalises its array result

func (e *c16Engine) run(c c16Case) (msg string, judged bool) {
	f, ok := e.fns[c.Fn]
	if !ok {
		return "", false
	}
	want := f.oracle(c.Args)
	if want == nil {
		return "", false
	}
	in := map[string]interface{}{}
	for i, a := range c.Args {
		in[fmt.Sprintf("p%d", i)] = a
	}
	out := port.Eval(e.exprs[c.Fn], in)
	got := out.String()
	for _, w := range want {
		if w == got || (w == "error" && out.Kind == port.KError) {
			return "", true
		}
	}
	return fmt.Sprintf("%s with %s gives %s; the definition gives %s", f.expr, mustJSON(c.Args), got, strings.Join(want, " or ")), true
}

var c16Eng = func() func() *c16Engine {
	var e *c16Engine
	return func() *c16Engine {
		if e == nil {
			e = newC16Engine()
		}
		return e
	}
}()

func init() {
	replay := func(raw json.RawMessage) string {
		var c c16Case
		if err := json.Unmarshal(raw, &c); err != nil {
			return "bad case: " + err.Error()
		}
		m, _ := c16Eng().run(c)
		return m
	}
	registerReplay("TestC16_Exhaustive", replay)
	registerReplay("TestC16_Random", replay)
	registerReplay("TestC16_Findings", replay)
}

func c16Nontrivial(c c16Case) bool {
	for _, a := range c.Args {
		switch v := a.(type) {
		case string:
			for _, r := range v {
				if r > 127 {
					return true
				}
			}
		case float64:
			if v < 0 || v > 3 {
				return true
			}
		}
	}
	return false
}

func c16AllStrings(maxLen int) []string {
	out := []string{""}
	prev := []string{""}
	for l := 1; l <= maxLen; l++ {
		var next []string
		for _, p := range prev {
			for _, ch := range c16Alphabet {
				next = append(next, p+ch)
			}
		}
		out = append(out, next...)
		prev = next
	}
	return out
}

// TestC16_Exhaustive: every subject string of <= 3 characters over the
// 8-character alphabet x every function x a parameter grid.
func TestC16_Exhaustive(t *testing.T) {
	rec := begin(t, "C16", "exhaustive: every string of 0..3 characters over {a, b, space, é (2 bytes), € (3 bytes), 😀 (4 bytes), tab, -} as subject x every function/law of the statement x parameter grids (start/length/width/limit over -8..8 in steps of 0.5 where one numeric parameter, -3..4 where two; separators and pad strings of length 0..2 over the alphabet); oracle = []rune references (fractional parameters: floor or truncation accepted); non-trivial = a multi-byte character or a negative / beyond-the-end parameter; distinct by (function, arguments)")
	defer finish(t, rec)
	eng := c16Eng()
	subjects := c16AllStrings(Scaled(3, 3))
	seps := c16AllStrings(1)
	seps = append(seps, "ab", "é€", "  ", "a ", "😀😀")
	var grid1, grid2 []float64
	for x := -8.0; x <= 8; x += 0.5 {
		grid1 = append(grid1, x)
	}
	for x := -3.0; x <= 4; x++ {
		grid2 = append(grid2, x)
	}
	grid2 = append(grid2, 1.5, -0.5)
	shard, nshards := stats.Shard()
	n := 0
	viol := 0
	emit := func(c c16Case) bool {
		m, judged := eng.run(c)
		if !judged {
			return true
		}
		n++
		rec.Case(c.Fn+"|"+string(mustJSON(c.Args)), c16Nontrivial(c), func() interface{} { return c })
		if m != "" {
			viol = rec.FailNow(c, m)
		}
		return viol < 8
	}
	for si, s := range subjects {
		if si%nshards != shard {
			continue
		}
		for _, f := range eng.list() {
			shape := c16Shapes[f.name]
			switch shape {
			case "s":
				if !emit(c16Case{f.name, []interface{}{s}}) {
					return
				}
			case "sn":
				for _, x := range grid1 {
					if !emit(c16Case{f.name, []interface{}{s, x}}) {
						return
					}
				}
			case "snn":
				for _, x := range grid2 {
					for _, y := range grid2 {
						if !emit(c16Case{f.name, []interface{}{s, x, y}}) {
							return
						}
					}
				}
			case "snp":
				for _, x := range []float64{-8, -5, -3.5, -1, 0, 1, 2, 3, 4.5, 6, 8} {
					for _, p := range []string{"", "x", "ab", "é€", "😀-b"} {
						if !emit(c16Case{f.name, []interface{}{s, x, p}}) {
							return
						}
					}
				}
			case "sc":
				for _, c := range seps {
					if !emit(c16Case{f.name, []interface{}{s, c}}) {
						return
					}
				}
			case "scn":
				for _, c := range seps {
					for _, x := range []float64{-1, 0, 1, 2, 2.5, 5} {
						if !emit(c16Case{f.name, []interface{}{s, c, x}}) {
							return
						}
					}
				}
			case "scc":
				for _, c := range seps {
					for _, d := range []string{"", "x", "é", "--"} {
						if !emit(c16Case{f.name, []interface{}{s, c, d}}) {
							return
						}
					}
				}
			case "sccn":
				for _, c := range seps[:6] {
					for _, x := range []float64{-1, 0, 1, 2, 1.5} {
						if !emit(c16Case{f.name, []interface{}{s, c, "#", x}}) {
							return
						}
					}
				}
			}
		}
	}
	rec.Exhaustive("subjects_le3_x_functions_x_parameter_grids", n)
	if nshards == 1 {
		rec.AllExhaustive()
	}
}

// Scaled picks a size by tier.
func Scaled(quick, thorough int) int { return stats.Scale(quick, thorough) }

// TestC16_Random: longer random strings and arbitrary Unicode.
func TestC16_Random(t *testing.T) {
	rec := begin(t, "C16", "rapid: subject strings of up to 12 characters over the same alphabet and arbitrary Unicode strings, separators/pad strings of length 0..3, numeric parameters over -8..8 in steps of 0.5 and a few large ones; same functions, laws and oracles; non-trivial = a multi-byte character or a negative / beyond-the-end parameter; distinct by (function, arguments)")
	defer finish(t, rec)
	eng := c16Eng()
	fns := eng.list()
	genStr := func(max int) *rapid.Generator[string] {
		return rapid.OneOf(
			rapid.Map(rapid.SliceOfN(rapid.SampledFrom(c16Alphabet), 0, max), func(p []string) string { return strings.Join(p, "") }),
			rapid.Map(rapid.SliceOfN(rapid.SampledFrom(c16Alphabet), 0, max), func(p []string) string { return strings.Join(p, "") }),
			rapid.StringN(0, max, 4*max),
		)
	}
	rapidRun(t, rec, 60000, 800000, func(rt *rapid.T) {
		f := rapid.SampledFrom(fns).Draw(rt, "fn")
		shape := c16Shapes[f.name]
		if shape == "" {
			return
		}
		c := c16Case{Fn: f.name}
		for i, k := range shape {
			switch k {
			case 's':
				c.Args = append(c.Args, genStr(12).Draw(rt, fmt.Sprintf("s%d", i)))
			case 'c', 'p':
				c.Args = append(c.Args, genStr(3).Draw(rt, fmt.Sprintf("c%d", i)))
			case 'n':
				x := float64(rapid.IntRange(-16, 16).Draw(rt, fmt.Sprintf("n%d", i))) / 2
				if rapid.IntRange(0, 30).Draw(rt, "big") == 0 {
					x = rapid.SampledFrom([]float64{100, -100, 40, 1e6}).Draw(rt, "bigN")
					if f.name == "pad2" || f.name == "pad3" || f.name == "law-pad-length" {
						x = 40
					}
				}
				c.Args = append(c.Args, x)
			}
		}
		m, judged := eng.run(c)
		if !judged {
			return
		}
		rec.Case(c.Fn+"|"+string(mustJSON(c.Args)), c16Nontrivial(c), func() interface{} { return c })
		rec.Class("fn_" + c.Fn)
		if m != "" && rec.Fail(c, m) {
			rt.Fatalf("%s", m)
		}
	})
}
