package checks

// C08 — Compile is total: an expression or a typed parse error, never a panic
// or hang. Oracle: a validity predicate over Compile's results, executed in an
// isolated worker process with a two-stage wall-clock limit.

import (
	"encoding/base64"
	"encoding/json"
	"fmt"
	"os"
	"path/filepath"
	"regexp"
	"strings"
	"sync"
	"testing"
	"unicode/utf8"

	jsonata "github.com/blues/jsonata-go"
	"github.com/blues/jsonata-go/jparse"
	"pgregory.net/rapid"

	"verif/harness/internal/port"
	"verif/harness/internal/stats"
)

type c08Case struct {
	B64  string `json:"b64"`  // the input bytes
	Text string `json:"text"` // %q rendering, informational
	// MustFail: the input contains, in an expression position, a sub-expression
	// that is itself rejected by Compile; the whole must be rejected too.
	MustFail string `json:"must_fail,omitempty"`
}

func mkC08(s string) c08Case {
	return c08Case{B64: base64.StdEncoding.EncodeToString([]byte(s)), Text: fmt.Sprintf("%q", s)}
}

func (c c08Case) input() string {
	b, _ := base64.StdEncoding.DecodeString(c.B64)
	return string(b)
}

type c08Result struct {
	Fail  string `json:"fail"`
	Valid bool   `json:"valid"` // compiled
	Evald bool   `json:"evald"`
}

var reDigits4 = regexp.MustCompile(`[0-9]{4}|[0-9][eE]`)

// safeToEval: evaluation of a compiled random text is only attempted when the
// text cannot legitimately need long or unbounded time/space: no lambda
// definitions (unbounded recursion is outside the property), no ranges, no
// numbers of 4+ digits or with exponents (sizes of paddings and ranges).
func safeToEval(s string) bool {
	return !strings.Contains(s, "function") && !strings.Contains(s, "λ") &&
		!strings.Contains(s, "..") && !reDigits4.MatchString(s)
}

const maxParseErrType = uint(jparse.ErrInvalidParamType)

// c08Predicate is the validity predicate of the property statement.
func c08Predicate(s string) (res c08Result) {
	var stage = "Compile"
	defer func() {
		if r := recover(); r != nil {
			res.Fail = fmt.Sprintf("%s panicked: %v", stage, r)
		}
	}()
	e, err := jsonata.Compile(s)
	switch {
	case e != nil && err != nil:
		return c08Result{Fail: "Compile returned both an expression and an error"}
	case e == nil && err == nil:
		return c08Result{Fail: "Compile returned neither an expression nor an error"}
	}
	stage = "jparse.Parse"
	node, perr := jparse.Parse(s)
	if (node == nil) != (e == nil) || (perr == nil) != (err == nil) {
		return c08Result{Fail: fmt.Sprintf("jparse.Parse (%v, %v) disagrees with Compile (%v)", node, perr, err)}
	}
	if err != nil {
		pe, ok := err.(*jparse.Error)
		if !ok || pe == nil {
			return c08Result{Fail: fmt.Sprintf("Compile error has type %T, not *jparse.Error: %v", err, err)}
		}
		if uint(pe.Type) < 1 || uint(pe.Type) > maxParseErrType {
			return c08Result{Fail: fmt.Sprintf("error type %d is not one of the defined types", pe.Type)}
		}
		if pe.Error() == "" {
			return c08Result{Fail: "empty error message"}
		}
		if pe.Position < 0 || pe.Position > len(s) {
			return c08Result{Fail: fmt.Sprintf("error position %d outside the input (len %d)", pe.Position, len(s))}
		}
		if pe2, ok := perr.(*jparse.Error); !ok || pe2.Type != pe.Type || pe2.Position != pe.Position {
			return c08Result{Fail: fmt.Sprintf("jparse.Parse error %v differs from Compile error %v", perr, err)}
		}
		stage = "MustCompile(recover)"
		panicked := func() (p bool) {
			defer func() {
				if recover() != nil {
					p = true
				}
			}()
			jsonata.MustCompile(s)
			return false
		}()
		if !panicked {
			return c08Result{Fail: "MustCompile did not panic although Compile returns an error"}
		}
		return c08Result{}
	}
	res.Valid = true
	stage = "MustCompile"
	if jsonata.MustCompile(s) == nil {
		return c08Result{Fail: "MustCompile returned nil", Valid: true}
	}
	stage = "Expr.String"
	_ = e.String()
	_ = node.String()
	if safeToEval(s) {
		stage = "Expr.Eval"
		res.Evald = true
		e.Eval(map[string]interface{}{})
		// and on a document in which short names resolve, so that sub-expressions
		// behind paths, predicates and transform patterns are reached as well
		var doc interface{}
		json.Unmarshal([]byte(`{"a":{"b":[1,2],"c":"b","d":{"x":1},"k":["c","d"]},"b":2,"c":"s","d":{"x":[3]},"k":"a","x":[{"a":1,"b":"c"},{"a":2}],"foo":{"a":1}}`), &doc)
		e.Eval(doc)
	}
	return res
}

func init() {
	workerOps["c08"] = func(raw json.RawMessage) interface{} {
		var c c08Case
		if err := json.Unmarshal(raw, &c); err != nil {
			return c08Result{Fail: "bad case: " + err.Error()}
		}
		res := c08Predicate(c.input())
		if res.Fail == "" && c.MustFail != "" && res.Valid {
			res.Fail = fmt.Sprintf("compiles although its sub-expression %s is rejected by Compile on its own", c.MustFail)
		}
		return res
	}
	replay := func(raw json.RawMessage) string {
		var c c08Case
		if err := json.Unmarshal(raw, &c); err != nil {
			return "bad case: " + err.Error()
		}
		is := newIsolator()
		defer is.Close()
		_, msg := c08Run(is, c)
		return msg
	}
	for _, n := range []string{"TestC08_Exhaustive", "TestC08_Signatures", "TestC08_ErrorPositions", "TestC08_Random", "TestC08_Mutations", "TestC08_Findings", "FuzzC08Compile"} {
		registerReplay(n, replay)
	}
}

// c08Run executes one case in isolation and returns the worker's result and a
// failure message ("" = the property held on this input).
func c08Run(is *isolator, c c08Case) (c08Result, string) {
	r := is.Call("c08", mustJSON(c))
	switch r.Status {
	case isoOK:
		var res c08Result
		json.Unmarshal(r.Result, &res)
		return res, res.Fail
	case isoFlaky, isoOOM:
		return c08Result{}, ""
	case isoTimeout:
		return c08Result{}, "Compile/Parse/String/Eval did not return: " + r.Detail
	case isoCrash:
		return c08Result{}, "process crashed: " + r.Detail
	case isoPanic:
		return c08Result{}, "panic escaped: " + firstLines(r.Detail, 6)
	}
	return c08Result{}, "harness: " + r.Detail
}

func c08Nontrivial(s string) bool {
	if len(s) < 2 {
		return false
	}
	for _, r := range s {
		if !(r == '_' || r == ' ' || (r >= '0' && r <= '9') || (r >= 'a' && r <= 'z') || (r >= 'A' && r <= 'Z')) {
			return true
		}
	}
	return false
}

func c08Record(rec *stats.Recorder, s string, res c08Result, flaky bool) {
	rec.Case(s, c08Nontrivial(s), func() interface{} {
		return map[string]interface{}{"input": fmt.Sprintf("%q", s), "compiled": res.Valid, "evaluated": res.Evald}
	})
	if res.Valid {
		rec.Class("valid")
	} else {
		rec.Class("typed_error")
	}
	if res.Evald {
		rec.Class("evaluated")
	}
}

var c08Alphabet = []string{
	"a", "$", "$x", "1", "0", ".", "..", "[", "]", "{", "}", "(", ")", ",", ";", ":", ":=", "?",
	"+", "-", "*", "**", "/", "%", "|", "=", "!", "!=", "<", "<=", ">", ">=", "~", "~>", "^", "&",
	"\"", "'", "`", "\\", " ", "and", "e", "é", "\xff", "True", "NULL",
}

// TestC08_Exhaustive enumerates every string of up to 3 symbols over the
// symbol alphabet (every 1- and 2-character operator, quotes, a multi-byte
// letter, an invalid UTF-8 byte…).
func TestC08_Exhaustive(t *testing.T) {
	rec := begin(t, "C08", "every string of <=3 symbols over a 45-symbol alphabet; non-trivial = length>=2 with a non-name character; distinct by input bytes")
	defer finish(t, rec)
	c08Enumerate(t, rec, "strings_le3_over_symbol_alphabet", func(emit func(string)) {
		A := c08Alphabet
		for _, a := range A {
			emit(a)
			for _, b := range A {
				emit(a + b)
				for _, c := range A {
					emit(a + b + c)
				}
			}
		}
	})
}

var c08SigAlphabet = []string{"n", "s", "b", "l", "a", "o", "f", "j", "x", "(", ")", "<", ">", "?", "+", "-", ":", "!", "é", "~"}

// TestC08_Signatures enumerates function($x)<S>{$x} for every S of up to 3
// symbols over the signature alphabet.
func TestC08_Signatures(t *testing.T) {
	rec := begin(t, "C08", "function($x)<S>{$x} for every S of <=3 symbols over the 20-symbol signature alphabet, plus two-parameter variants; distinct by input")
	defer finish(t, rec)
	c08Enumerate(t, rec, "lambda_signatures_le3", func(emit func(string)) {
		A := c08SigAlphabet
		for _, a := range A {
			emit("function($x)<" + a + ">{$x}")
			for _, b := range A {
				emit("function($x)<" + a + b + ">{$x}")
				emit("λ($x,$y)<" + a + b + ">{$y}")
				for _, c := range A {
					emit("function($x)<" + a + b + c + ">{$x}")
				}
			}
		}
	})
}

// c08Enumerate shards an enumeration over parallel isolators.
func c08Enumerate(t *testing.T, rec *stats.Recorder, name string, gen func(emit func(string))) {
	var all []string
	gen(func(s string) { all = append(all, s) })
	shard, nshards := stats.Shard()
	const W = 8
	var wg sync.WaitGroup
	for w := 0; w < W; w++ {
		wg.Add(1)
		go func(w int) {
			defer wg.Done()
			is := newIsolator()
			defer is.Close()
			for i := w; i < len(all); i += W {
				if i%nshards != shard {
					continue
				}
				if rec.Violations() >= 5 {
					return
				}
				s := all[i]
				c := mkC08(s)
				res, msg := c08Run(is, c)
				c08Record(rec, s, res, false)
				if msg != "" {
					rec.FailNow(c, msg)
				}
			}
		}(w)
	}
	wg.Wait()
	rec.Exhaustive(name, len(all))
	if nshards == 1 {
		rec.AllExhaustive()
	}
}

var (
	corpusOnce sync.Once
	corpus     []string
)

func loadCorpus() []string {
	corpusOnce.Do(func() {
		b, err := os.ReadFile(filepath.Join(stats.Root(), "corpus", "exprs.json"))
		if err == nil {
			json.Unmarshal(b, &corpus)
		}
	})
	return corpus
}

var c08Soup = []string{
	"a", "b", "foo", "`a b`", "`", "$", "$x", "$$", "$sum", "$string", "function", "λ", "1", "0", "12", "1.5", "1.", "1e", "1e+", "1E-2", ".5", "e", "E",
	".", "..", "[", "]", "{", "}", "(", ")", ",", ";", ":", ":=", "?", "+", "-", "*", "**", "/", "%", "|", "=", "!", "!=", "<", "<=", ">", ">=", "~", "~>", "^", "&",
	"\"", "'", "\\", "\\u", "\\u00", "\\ud83d", "\\ude00", "\\n", "\\x", " ", "\n", "\t", "and", "or", "in", "true", "false", "null",
	"TRUE", "True", "tRUE", "FALSE", "False", "AND", "And", "OR", "Or", "IN", "In", "NULL", "Null", "FUNCTION", "Function", "/*", "*/", "//", "--", "#",
	"é", "䑁", "😀", "\xff", "\xc3", "\xe4\x91", "/a/", "/a/i", "/[/", "/(/", "/\\//", "<n>", "<s-:n>", "<a<n>>", "<(ns)?>", "<x+>", "<f<n:n>>",
}

func genC08Random() *rapid.Generator[string] {
	return rapid.OneOf(
		// uniform bytes
		rapid.Map(rapid.SliceOfN(rapid.Byte(), 0, 48), func(b []byte) string { return string(b) }),
		// token soup
		rapid.Map(rapid.SliceOfN(rapid.SampledFrom(c08Soup), 1, 14), func(ts []string) string { return strings.Join(ts, "") }),
		rapid.Map(rapid.SliceOfN(rapid.SampledFrom(c08Soup), 1, 14), func(ts []string) string { return strings.Join(ts, " ") }),
		// arbitrary unicode strings
		rapid.StringN(0, 24, 64),
		// lambda with a soup signature
		rapid.Map(rapid.SliceOfN(rapid.SampledFrom(c08SigAlphabet), 0, 8), func(ts []string) string {
			return "function($a,$b)<" + strings.Join(ts, "") + ">{$a}"
		}),
		// string literal with soup escapes
		rapid.Map(rapid.SliceOfN(rapid.SampledFrom([]string{"\\", "u", "d", "8", "0", "f", "F", "g", "\"", "'", "n", "é", "😀", "\\ud83d", "\\ude00", "\\u00e9", "x"}), 0, 10), func(ts []string) string {
			return "\"" + strings.Join(ts, "") + "\""
		}),
		// number-like soup
		rapid.Map(rapid.SliceOfN(rapid.SampledFrom([]string{"0", "1", "9", ".", "e", "E", "+", "-", "䑁", "é", " ", "[", "]"}), 1, 8), func(ts []string) string {
			return strings.Join(ts, "")
		}),
		// regex-like soup
		rapid.Map(rapid.SliceOfN(rapid.SampledFrom([]string{"/", "a", "[", "]", "(", ")", "{", "}", "\\", "i", "m", "s", "*", "+", "?", "|", "^", "$", "\n", "é"}), 1, 10), func(ts []string) string {
			return strings.Join(ts, "")
		}),
	)
}

// TestC08_Random: random bytes, invalid UTF-8, token soup.
func TestC08_Random(t *testing.T) {
	rec := begin(t, "C08", "rapid: uniform bytes, token soup over every symbol/keyword/escape/number/regex/signature fragment, arbitrary Unicode strings; non-trivial = length>=2 with a non-name character; distinct by input bytes")
	defer finish(t, rec)
	is := newIsolator()
	defer is.Close()
	g := genC08Random()
	var hg hangGuard
	rapidRun(t, rec, 60000, 400000, func(rt *rapid.T) {
		if hg.tripped() {
			return
		}
		s := g.Draw(rt, "input")
		c := mkC08(s)
		res, msg := c08Run(is, c)
		c08Record(rec, s, res, false)
		if !utf8.ValidString(s) {
			rec.Class("invalid_utf8")
		}
		hg.fail(rt, rec, c, msg, fmt.Sprintf(" on %q", s))
	})
	c08Floors(rec)
}

func c08Floors(rec *stats.Recorder) {
	n := rec.Evaluations()
	if n < 1000 {
		return
	}
	v, e := rec.ClassCount("valid"), rec.ClassCount("typed_error")
	if v*100 < n*5 || e*100 < n*10 {
		rec.Fatal(fmt.Sprintf("generator regression: %d valid / %d typed errors of %d", v, e, n))
	}
}

var c08Inserts = append([]string{}, c08Soup...)

// mutate applies one edit to s: delete / insert / replace / duplicate a span / truncate.
func genMutation(base string) *rapid.Generator[string] {
	return rapid.Custom(func(rt *rapid.T) string {
		rs := []rune(base)
		n := len(rs)
		if n == 0 {
			return rapid.SampledFrom(c08Inserts).Draw(rt, "ins")
		}
		edits := rapid.IntRange(1, 2).Draw(rt, "edits")
		for k := 0; k < edits && len(rs) > 0; k++ {
			n = len(rs)
			pos := rapid.IntRange(0, n-1).Draw(rt, "pos")
			switch rapid.IntRange(0, 4).Draw(rt, "op") {
			case 0: // delete a span
				l := rapid.IntRange(1, 3).Draw(rt, "len")
				end := pos + l
				if end > n {
					end = n
				}
				rs = append(append([]rune{}, rs[:pos]...), rs[end:]...)
			case 1: // insert
				ins := []rune(rapid.SampledFrom(c08Inserts).Draw(rt, "ins"))
				rs = append(append(append([]rune{}, rs[:pos]...), ins...), rs[pos:]...)
			case 2: // replace
				ins := []rune(rapid.SampledFrom(c08Inserts).Draw(rt, "ins"))
				rs = append(append(append([]rune{}, rs[:pos]...), ins...), rs[pos+1:]...)
			case 3: // duplicate a span
				l := rapid.IntRange(1, 6).Draw(rt, "len")
				end := pos + l
				if end > n {
					end = n
				}
				span := append([]rune{}, rs[pos:end]...)
				rs = append(append(append([]rune{}, rs[:end]...), span...), rs[end:]...)
			case 4: // truncate
				rs = rs[:pos]
			}
		}
		return string(rs)
	})
}

// c08Templates: one hole (X) in every expression position of every construct.
var c08Templates = []string{
	`X`, `(X)`, `(1; X)`, `(X; 1)`, `[X]`, `[1, X]`, `[X, 1]`, `[X..2]`, `[1..X]`, `{X: 1}`, `{"k": X}`, `{"k": 1, "j": X}`, `{"k": 1, X: 2}`,
	`a{X: 1}`, `a{"k": X}`, `X{"k": 1}`, `$f(X)`, `$f(1, X)`, `X(1)`, `$f(?, X)`, `a[X]`, `X[1]`, `a[1][X]`, `a.X`, `X.a`, `a.b[X].c`, `a.(X)`, `$$.X`, `**.X`, `a.X[]`,
	`X ? 1 : 2`, `1 ? X : 2`, `1 ? 2 : X`, `1 ? X`, `$v := X`, `($v := X; $v)`, `function($a){X}`, `function($a){X}(1)`, `function($a)<n:n>{X}`, `λ($a){X}`,
	`a^(X)`, `a^(>X, b)`, `a^(b, <X)`, `X^(a)`, `X + 1`, `1 + X`, `X * 2`, `X & "s"`, `"s" & X`, `X = 1`, `1 != X`, `X < 1`, `X and true`, `true or X`, `X in [1]`, `1 in X`, `-X`, `-(X)`,
	`X ~> $f`, `a ~> X`, `a ~> $f(X)`, `|X|{"a":1}|`, `|a|X|`, `|a|{"b":1}, X|`, `a ~> |b|{"c": X}|`, `$ ~> |a|{"z": 1}, X|`, `$ ~> |X|{"z": 1}|`, `$ ~> |a|X|`, `$ ~> |a|{"z": X}, "b"|`, `a ~> |$|{"z": 1}, X|`, `$ ~> |x|{"z": 1}, X|`, `[1, [2, {"a": [X]}]]`, `$map(a, function($v){X})`, `(function(){X})()`,
}

// c08Rejected: expressions that Compile rejects in its second (tree
// normalisation) phase or in the lexer/parser, each on its own.
var c08Rejected = []string{
	`"a".b`, `1.x`, `null.b`, `true.c`, `a."b"`, `a.1`, `a{"k":1}{"j":2}`, `a{"k":1}[0]`, `(a{"k":1}{"j":2})`, `[a.2]`, `{"a": b.true}`,
	`(1 := 2)`, `(a := 2)`, `function(1){1}`, `function($a, b){1}`, `/[/`, `"\q"`, `1e999`, `"\ud83d"`, `a.`, `? 1`, `1 2`, `a[`, `{"a" 1}`,
}

// TestC08_ErrorPositions: a rejected sub-expression in any expression position
// makes the whole text rejected (no error is lost on the way up), and a valid
// one in the same position goes through the general predicate.
func TestC08_ErrorPositions(t *testing.T) {
	rec := begin(t, "C08", "enumerated: 66 one-hole templates covering every expression position of every construct x 25 sub-expressions that Compile rejects on their own (path literals, double grouping, predicate after grouping, illegal assignment/parameters, bad regex/escape/number, truncated constructs) - the whole text must be rejected - and x 12 valid sub-expressions through the general predicate; distinct by text")
	defer finish(t, rec)
	valid := []string{`a`, `1`, `"s"`, `$x`, `[1]`, `{"a":1}`, `$f(1)`, `function($q){$q}`, `/a/`, `a.b[0]`, `a{"k": b}`, `a^(b)`, `a.c`, `a.k`, `d.x`, `b[]`, `"b"`, `["b", "c"]`, `a.d{"k": x}`, `k[0]`}
	var all []c08Case
	// only sub-expressions that are rejected on their own on this tree are claimed
	var rejected []string
	pre := newIsolator()
	for _, e := range c08Rejected {
		if res, msg := c08Run(pre, mkC08(e)); msg == "" && !res.Valid {
			rejected = append(rejected, e)
		} else {
			rec.Class("subexpression_not_rejected_alone")
		}
	}
	pre.Close()
	for _, tpl := range c08Templates {
		for _, e := range rejected {
			// parenthesised, so that the surrounding text cannot re-associate it
			c := mkC08(strings.ReplaceAll(tpl, "X", "("+e+")"))
			c.MustFail = fmt.Sprintf("%q", e)
			all = append(all, c)
		}
		for _, e := range valid {
			all = append(all, mkC08(strings.ReplaceAll(tpl, "X", e)))
		}
	}
	shard, nshards := stats.Shard()
	const W = 8
	var wg sync.WaitGroup
	for w := 0; w < W; w++ {
		wg.Add(1)
		go func(w int) {
			defer wg.Done()
			is := newIsolator()
			defer is.Close()
			for i := w; i < len(all); i += W {
				if i%nshards != shard || rec.Violations() >= 5 {
					continue
				}
				c := all[i]
				res, msg := c08Run(is, c)
				c08Record(rec, c.input(), res, false)
				if c.MustFail != "" {
					rec.Class("must_be_rejected")
				}
				if msg != "" {
					rec.FailNow(c, msg)
				}
			}
		}(w)
	}
	wg.Wait()
	rec.Exhaustive("template_x_subexpression", len(all))
}

// TestC08_Mutations: every corpus expression unchanged, and single/double
// edits of corpus expressions and of generated valid programs.
func TestC08_Mutations(t *testing.T) {
	rec := begin(t, "C08", "the ~1300 expressions of the repository's tests unchanged, then rapid single/double edits (delete/insert/replace/duplicate/truncate) of them; non-trivial = length>=2 with a non-name character; distinct by input bytes")
	defer finish(t, rec)
	is := newIsolator()
	defer is.Close()
	cp := loadCorpus()
	if len(cp) < 500 {
		rec.Fatal("corpus missing")
		return
	}
	shard, _ := stats.Shard()
	if shard == 0 {
		for _, s := range cp {
			c := mkC08(s)
			res, msg := c08Run(is, c)
			c08Record(rec, s, res, false)
			if msg != "" {
				if rec.FailNow(c, msg) >= 5 {
					return
				}
			}
		}
		rec.Exhaustive("corpus_unchanged", len(cp))
	}
	var hg hangGuard
	rapidRun(t, rec, 60000, 400000, func(rt *rapid.T) {
		if hg.tripped() {
			return
		}
		base := rapid.SampledFrom(cp).Draw(rt, "base")
		s := genMutation(base).Draw(rt, "mutant")
		c := mkC08(s)
		res, msg := c08Run(is, c)
		c08Record(rec, s, res, false)
		hg.fail(rt, rec, c, msg, fmt.Sprintf(" on %q", s))
	})
	c08Floors(rec)
}

var _ = port.KValue
