package checks

// C05 — Evaluation is repeatable and leaves the compiled expression unchanged.
// State-machine test (rapid T.Repeat): a pool of compiled expressions and a
// pool of inputs; actions evaluate an expression on an input, evaluate a
// freshly compiled copy, print an expression. Invariant over the history: the
// outcome is a function of (program text, input), and String() and the deep
// dump of the syntax tree never change.

import (
	"encoding/json"
	"fmt"
	"reflect"
	"regexp"
	"sort"
	"strings"
	"testing"

	jsonata "github.com/blues/jsonata-go"
	"pgregory.net/rapid"

	"verif/harness/internal/ast"
	"verif/harness/internal/gen"
	"verif/harness/internal/port"
	"verif/harness/internal/stats"
	"verif/harness/internal/val"
)

// dumpNode renders a syntax tree structurally (types, exported and unexported
// fields, pointers followed) so that any change to the tree changes the text.
func dumpNode(x interface{}) string {
	var sb strings.Builder
	dumpValue(&sb, reflect.ValueOf(x), 0)
	return sb.String()
}

var regexpType = reflect.TypeOf((*regexp.Regexp)(nil))

func dumpValue(sb *strings.Builder, v reflect.Value, depth int) {
	if depth > 200 {
		sb.WriteString("<deep>")
		return
	}
	if !v.IsValid() {
		sb.WriteString("nil")
		return
	}
	if v.Type() == regexpType {
		if v.IsNil() {
			sb.WriteString("re(nil)")
		} else {
			sb.WriteString("re(" + v.Interface().(*regexp.Regexp).String() + ")")
		}
		return
	}
	switch v.Kind() {
	case reflect.Interface, reflect.Ptr:
		if v.IsNil() {
			sb.WriteString("nil")
			return
		}
		if v.Kind() == reflect.Ptr {
			sb.WriteString("&")
		}
		dumpValue(sb, v.Elem(), depth+1)
	case reflect.Struct:
		sb.WriteString(v.Type().Name() + "{")
		for i := 0; i < v.NumField(); i++ {
			sb.WriteString(v.Type().Field(i).Name + ":")
			dumpValue(sb, v.Field(i), depth+1)
			sb.WriteString(",")
		}
		sb.WriteString("}")
	case reflect.Slice, reflect.Array:
		fmt.Fprintf(sb, "[%d:", v.Len())
		for i := 0; i < v.Len(); i++ {
			dumpValue(sb, v.Index(i), depth+1)
			sb.WriteString(",")
		}
		sb.WriteString("]")
	case reflect.String:
		fmt.Fprintf(sb, "%q", v.String())
	case reflect.Bool:
		fmt.Fprintf(sb, "%v", v.Bool())
	case reflect.Int, reflect.Int8, reflect.Int16, reflect.Int32, reflect.Int64:
		fmt.Fprintf(sb, "%d", v.Int())
	case reflect.Uint, reflect.Uint8, reflect.Uint16, reflect.Uint32, reflect.Uint64:
		fmt.Fprintf(sb, "%d", v.Uint())
	case reflect.Float32, reflect.Float64:
		fmt.Fprintf(sb, "%v", v.Float())
	default:
		sb.WriteString("<" + v.Kind().String() + ">")
	}
}

type c05Step struct {
	Op   string `json:"op"` // eval | fresh | print
	Expr int    `json:"expr"`
	Doc  int    `json:"doc"`
}

type c05Case struct {
	Texts []string  `json:"texts"`
	Multi []bool    `json:"multi"` // program has a constructor with >= 2 members (which error is reported may vary)
	Docs  []string  `json:"docs"`
	Steps []c05Step `json:"steps"`
	// FreshProc = [expr, doc]: after the history, the outcome of this pair in
	// this process is compared with its outcome in a brand-new process (which
	// has evaluated nothing else before)
	FreshProc []int `json:"fresh_process,omitempty"`
	// Reg[i]: expression i carries Expr-level registrations ($reg = "R" and
	// $regf(x) = x & "!"), i.e. it is evaluated with bindings of its own
	Reg []bool `json:"reg,omitempty"`
}

func (c c05Case) compile(i int, regVal string) (*jsonata.Expr, *port.Outcome) {
	e, o := port.Compile(c.Texts[i])
	if o != nil {
		return nil, o
	}
	if i < len(c.Reg) && c.Reg[i] {
		e.RegisterVars(map[string]interface{}{"reg": regVal})
		e.RegisterExts(map[string]jsonata.Extension{"regf": {Func: func(s string) string { return s + "!" }}})
	}
	return e, nil
}

type c05Machine struct {
	c      c05Case
	exprs  []*jsonata.Expr
	str0   []string
	dump0  []string
	seen   map[string]port.Outcome // text|doc -> first observed outcome
	evals  []int                   // evaluations per expr
	gapped []bool                  // evaluated >= 2 times with something else in between
	lastEv int
	cur    int // expression of the step being executed
	regVal []string
	regGen int
}

func newC05Machine(c c05Case) (*c05Machine, string) {
	m := &c05Machine{c: c, seen: map[string]port.Outcome{}, lastEv: -1}
	m.regVal = make([]string, len(c.Texts))
	for i := range c.Texts {
		m.regVal[i] = "R"
		e, o := c.compile(i, "R")
		if o != nil {
			return nil, "compile: " + o.String()
		}
		m.exprs = append(m.exprs, e)
		m.str0 = append(m.str0, e.String())
		m.dump0 = append(m.dump0, dumpNode(exprRoot(e)))
	}
	m.evals = make([]int, len(c.Texts))
	m.gapped = make([]bool, len(c.Texts))
	return m, ""
}

func (m *c05Machine) observe(text string, multi bool, doc int, out port.Outcome, how string) string {
	key := text + "\x00" + m.c.Docs[doc]
	if m.cur < len(m.c.Reg) && m.c.Reg[m.cur] {
		key += "\x00registered:" + m.regVal[m.cur] // equal bindings are part of "the same evaluation"
	}
	first, ok := m.seen[key]
	if !ok {
		m.seen[key] = out
		return ""
	}
	if port.Same(first, out) {
		// an argument error also names the function and the argument position
		if out.Kind == port.KError && (out.Err == "ArgCount" || out.Err == "ArgType") && first.Msg != out.Msg && !multi {
			return fmt.Sprintf("%s of %q on input %s failed with %q, an earlier evaluation of the same program on an equal input failed with %q", how, text, trunc(m.c.Docs[doc], 120), out.Msg, first.Msg)
		}
		return ""
	}
	if multi && first.Kind == port.KError && out.Kind == port.KError {
		return "" // sanctioned: which member's error is reported
	}
	return fmt.Sprintf("%s of %q on input %s gave %s, an earlier evaluation of the same program on an equal input gave %s", how, text, trunc(m.c.Docs[doc], 120), out.String(), first.String())
}

func (m *c05Machine) invariant() string {
	for i, e := range m.exprs {
		if s := e.String(); s != m.str0[i] {
			return fmt.Sprintf("Expr.String() of %q changed from %q to %q", m.c.Texts[i], m.str0[i], s)
		}
		if haveRootHook {
			if d := dumpNode(exprRoot(e)); d != m.dump0[i] {
				return fmt.Sprintf("the syntax tree of %q changed after evaluation", m.c.Texts[i])
			}
		}
	}
	return ""
}

func (m *c05Machine) step(s c05Step) string {
	if s.Expr >= len(m.exprs) || s.Doc >= len(m.c.Docs) {
		return ""
	}
	m.cur = s.Expr
	switch s.Op {
	case "eval":
		in, _ := port.DecodeJSON(m.c.Docs[s.Doc])
		out := port.Eval(m.exprs[s.Expr], in)
		m.evals[s.Expr]++
		if m.evals[s.Expr] >= 2 && m.lastEv != s.Expr {
			m.gapped[s.Expr] = true
		}
		m.lastEv = s.Expr
		if msg := m.observe(m.c.Texts[s.Expr], m.c.Multi[s.Expr], s.Doc, out, fmt.Sprintf("evaluation #%d", m.evals[s.Expr])); msg != "" {
			return msg
		}
	case "fresh":
		e, o := m.c.compile(s.Expr, m.regVal[s.Expr])
		if o != nil {
			return "re-compile failed: " + o.String()
		}
		if st := e.String(); st != m.str0[s.Expr] {
			return fmt.Sprintf("a fresh compile of %q prints %q, the long-lived Expr printed %q", m.c.Texts[s.Expr], st, m.str0[s.Expr])
		}
		in, _ := port.DecodeJSON(m.c.Docs[s.Doc])
		out := port.Eval(e, in)
		m.lastEv = -2
		if msg := m.observe(m.c.Texts[s.Expr], m.c.Multi[s.Expr], s.Doc, out, "evaluation of a freshly compiled copy"); msg != "" {
			return msg
		}
	case "print":
		_ = m.exprs[s.Expr].String()
	case "rereg":
		// the bindings of a long-lived Expr change between evaluations: later
		// evaluations must equal those of a fresh Expr with the new bindings
		if s.Expr < len(m.c.Reg) && m.c.Reg[s.Expr] {
			m.regGen++
			m.regVal[s.Expr] = fmt.Sprintf("R%d", m.regGen)
			m.exprs[s.Expr].RegisterVars(map[string]interface{}{"reg": m.regVal[s.Expr]})
		}
	}
	return m.invariant()
}

func c05Replay(c c05Case) string {
	m, err := newC05Machine(c)
	if err != "" {
		return ""
	}
	for _, s := range c.Steps {
		if msg := m.step(s); msg != "" {
			return msg
		}
	}
	return c05FreshProcess(c)
}

// c05FreshProcess: "whatever ... any other expression in the process has
// evaluated before" - a process that has evaluated nothing is the baseline.
func c05FreshProcess(c c05Case) string {
	if len(c.FreshProc) != 2 {
		return ""
	}
	i, j := c.FreshProc[0], c.FreshProc[1]
	if i >= len(c.Texts) || j >= len(c.Docs) || (i < len(c.Reg) && c.Reg[i]) {
		return ""
	}
	here := port.Run(c.Texts[i], c.Docs[j])
	if here.Kind == port.KPanic {
		return ""
	}
	is := newIsolator()
	r := is.Call("evalv", mustJSON(evalCase{Text: c.Texts[i], Input: c.Docs[j]}))
	is.Close()
	if r.Status != isoOK {
		return ""
	}
	var there evalResult
	if json.Unmarshal(r.Result, &there) != nil {
		return ""
	}
	same := there.Kind == here.Kind
	switch {
	case same && here.Kind == port.KValue:
		same = there.Msg == here.Repr
	case same && here.Kind == port.KError:
		same = there.Err == here.Err || (i < len(c.Multi) && c.Multi[i])
		if same && there.Err == here.Err && (here.Err == "ArgCount" || here.Err == "ArgType") && !(i < len(c.Multi) && c.Multi[i]) {
			same = there.Msg == here.Msg // the function named and the argument position
		}
	}
	if !same {
		return fmt.Sprintf("%q on input %s gives %s in this process (after the history) but %s %s %s in a process that has evaluated nothing else", c.Texts[i], trunc(c.Docs[j], 120), here.String(), there.Kind, there.Err, there.Msg)
	}
	return ""
}

func init() {
	replay := func(raw json.RawMessage) string {
		var c c05Case
		if err := json.Unmarshal(raw, &c); err != nil {
			return "bad case: " + err.Error()
		}
		return c05Replay(c)
	}
	registerReplay("TestC05_Histories", replay)
	registerReplay("TestC05_Findings", replay)
}

var c05Exclude = map[string]bool{"random": true, "shuffle": true, "now": true, "millis": true}

// genStateful: programs biased to the constructs that carry state in a careless
// implementation: chains into calls, partial applications of context-defaulting
// built-ins, lambdas, transforms, regexes, order-by.
func genStateful() *rapid.Generator[*ast.Node] {
	chaos := gen.Chaotic(gen.ChaoticOpts{MaxDepth: 4, Exclude: c05Exclude})
	small := gen.Chaotic(gen.ChaoticOpts{MaxDepth: 2, Exclude: c05Exclude})
	name := rapid.Custom(func(t *rapid.T) *ast.Node { return ast.NameN(rapid.SampledFrom(gen.Names).Draw(t, "n")) })
	ctxFns := []string{"string", "length", "uppercase", "lowercase", "trim", "number", "abs", "boolean", "keys", "type", "spread"}
	return rapid.Custom(func(t *rapid.T) *ast.Node {
		switch rapid.IntRange(0, 32).Draw(t, "shape") {
		case 29: // a built-in's name shadowed in the block only for the inputs that have a member
			f := rapid.SampledFrom([]string{"sum", "count", "string", "uppercase", "max"}).Draw(t, "shadowed")
			return ast.BlockN(ast.N(ast.Cond, ast.CallN("exists", name.Draw(t, "cond")), assign(f, ast.LambdaN([]string{"v"}, "", ast.StrN("shadowed"))), ast.NumN(0)),
				ast.CallN(f, ast.ArrN(ast.NumN(1), ast.NumN(2))))
		case 30: // a transform whose update clause reads a variable bound from the input outside it
			n := name.Draw(t, "outer")
			upd := ast.N(ast.Obj, ast.StrN("t"), ast.VarN("r"))
			if rapid.Bool().Draw(t, "viaRoot") {
				upd = ast.N(ast.Obj, ast.StrN("t"), ast.CallN("string", ast.PathN(ast.VarN("$"), n.Clone())))
			}
			return ast.BlockN(assign("r", ast.CallN("string", n)),
				ast.N(ast.Chain, ast.N(ast.Obj, ast.StrN("o"), ast.N(ast.Obj, ast.StrN("k"), ast.NumN(1))), ast.N(ast.Transform, ast.NameN("o"), upd)))
		case 27: // time parsing/formatting with and without a picture (a twin from the same family joins the pool)
			return c05TimeFamily(t)
		case 28: // a concatenation chain whose last operand fails on the inputs that lack a member, after the first operands were rendered
			n := name.Draw(t, "member")
			return ast.BinN("&", ast.BinN("&", ast.BinN("&", ast.StrN("id-"), ast.CallN("string", ast.CallN("exists", n))), ast.StrN("-")),
				ast.BlockN(ast.N(ast.Cond, ast.CallN("exists", n.Clone()), ast.StrN("ok"), ast.BinN("+", ast.NumN(1), ast.StrN("a")))))
		case 24: // a constructor with a literal key next to a computed one (evaluated again and again)
			return ast.N(ast.Obj, ast.StrN("kind"), ast.StrN("item"), ast.CallN("string", name.Draw(t, "key")), name.Draw(t, "value"))
		case 25: // the same inside a path step (once per item)
			return ast.PathN(name.Draw(t, "seq"), ast.N(ast.Obj, ast.StrN("lit"), ast.NumN(1), ast.CallN("string", ast.VarN("")), ast.NumN(2)))
		case 26: // no names, no variables: the input is read only through a context-defaulting built-in
			switch rapid.IntRange(0, 7).Draw(t, "ctxform") {
			case 0:
				return ast.CallN("substringBefore", ast.StrN("a"))
			case 1:
				return ast.N(ast.Cond, ast.CallN("contains", ast.StrN("a")), ast.StrN("has a"), ast.StrN("no a"))
			case 2:
				return ast.CallN("power", ast.NumN(2))
			case 3:
				return ast.CallN("substring", ast.NumN(1))
			case 4:
				return ast.CallN("pad", ast.NumN(5), ast.StrN("*"))
			case 5:
				return ast.CallN("split", ast.StrN("a"))
			case 6:
				return ast.BinN("&", ast.CallN("substringAfter", ast.StrN("b")), ast.StrN("!"))
			}
			return ast.CallN("replace", ast.StrN("a"), ast.StrN("o"))
		case 22: // an error raised deep inside recursive user-defined calls (whatever it leaves behind must not add up)
			depth := float64(rapid.IntRange(30, 90).Draw(t, "errDepth"))
			body := ast.N(ast.Cond, ast.BinN("=", ast.VarN("n"), ast.NumN(0)), ast.BinN("+", ast.VarN("n"), ast.StrN("a")), ast.CallE(ast.VarN("f"), ast.BinN("-", ast.VarN("n"), ast.NumN(1))))
			return ast.BlockN(&ast.Node{K: ast.Assign, S: "f", C: []*ast.Node{ast.LambdaN([]string{"n"}, "", body)}}, ast.CallE(ast.VarN("f"), ast.NumN(depth)))
		case 23: // a successful recursion of moderate depth
			depth := float64(rapid.IntRange(20, 60).Draw(t, "okDepth"))
			body := ast.N(ast.Cond, ast.BinN("=", ast.VarN("n"), ast.NumN(0)), ast.NumN(0), ast.BinN("+", ast.VarN("n"), ast.CallE(ast.VarN("g"), ast.BinN("-", ast.VarN("n"), ast.NumN(1)))))
			return ast.BlockN(&ast.Node{K: ast.Assign, S: "g", C: []*ast.Node{ast.LambdaN([]string{"n"}, "", body)}}, ast.CallE(ast.VarN("g"), ast.NumN(depth)))
		case 18: // the same picture with and without decimal-format options (possibly in different expressions of the pool)
			pic := rapid.SampledFrom([]string{"0.000", "#,##0.00", "0,0.0"}).Draw(t, "pic")
			args := []*ast.Node{ast.NumN(rapid.SampledFrom([]float64{1234.25, 0.5, 1234567.891}).Draw(t, "fx")), ast.StrN(pic)}
			if rapid.Bool().Draw(t, "opts") {
				args = append(args, ast.N(ast.Obj, ast.StrN("decimal-separator"), ast.StrN(","), ast.StrN("grouping-separator"), ast.StrN(".")))
			}
			return ast.CallN("formatNumber", args...)
		case 19: // the evaluation clock: $now and $millis denote one instant (the difference is always 0)
			return ast.BlockN(&ast.Node{K: ast.Assign, S: "a", C: []*ast.Node{ast.CallN("millis")}}, ast.CallN("sum", ast.ArrN(ast.N(ast.Range, ast.NumN(1), ast.NumN(3000)))),
				ast.BinN("-", ast.CallN("toMillis", ast.CallN("now")), ast.VarN("a")))
		case 20: // a built-in called through a differently named variable
			f1 := rapid.SampledFrom([]string{"join", "sum", "count", "append", "reduce", "map", "merge", "string", "substringBefore"}).Draw(t, "f1")
			return ast.BlockN(&ast.Node{K: ast.Assign, S: "al", C: []*ast.Node{ast.VarN(f1)}}, ast.CallE(ast.VarN("al"), small.Draw(t, "x"), ast.StrN("-")))
		case 21: // the same built-ins reached without a call expression, with arguments that do not fit
			f1 := rapid.SampledFrom([]string{"join", "sum", "count", "append", "reduce", "map", "merge", "string", "substringBefore"}).Draw(t, "f1")
			if rapid.Bool().Draw(t, "viaMap") {
				return ast.CallN("map", ast.ArrN(ast.StrN("a"), ast.NumN(1)), ast.VarN(f1))
			}
			return ast.N(ast.Chain, small.Draw(t, "lhs"), ast.VarN(f1))
		case 0: // chain into a call
			return ast.N(ast.Chain, small.Draw(t, "lhs"), ast.CallN(rapid.SampledFrom([]string{"power", "substring", "pad", "append", "join", "split", "contains", "round", "substringBefore"}).Draw(t, "fn"), small.Draw(t, "arg")))
		case 1: // chain of chains
			return ast.N(ast.Chain, ast.N(ast.Chain, name.Draw(t, "v"), ast.CallN("string")), ast.CallN("pad", ast.NumN(float64(rapid.IntRange(-6, 6).Draw(t, "w")))))
		case 2: // partial of a context-defaulting built-in, applied
			return ast.PathN(name.Draw(t, "ctx"), ast.CallE(&ast.Node{K: ast.Partial, C: []*ast.Node{ast.VarN("pad"), ast.N(ast.Hole), ast.StrN("2")}}, ast.NumN(float64(rapid.IntRange(1, 5).Draw(t, "w")))))
		case 3: // context-defaulting call under a path context
			return ast.PathN(name.Draw(t, "ctx"), ast.CallN(rapid.SampledFrom(ctxFns).Draw(t, "fn")))
		case 4: // nested context-defaulting calls under different contexts
			return ast.PathN(name.Draw(t, "ctx"), ast.CallN("substringBefore", ast.PathN(ast.VarN("$"), name.Draw(t, "ctx2"), ast.CallN("substringBefore", ast.StrN("a")))))
		case 5: // lambda bound and called twice
			return ast.BlockN(&ast.Node{K: ast.Assign, S: "f", C: []*ast.Node{ast.LambdaN([]string{"x"}, "", small.Draw(t, "body"))}}, ast.ArrN(ast.CallE(ast.VarN("f"), name.Draw(t, "a1")), ast.CallE(ast.VarN("f"), ast.NumN(2))))
		case 6: // regex functions
			return ast.CallN(rapid.SampledFrom([]string{"match", "replace", "split", "contains"}).Draw(t, "rfn"), ast.CallN("string", name.Draw(t, "s")), &ast.Node{K: ast.Regex, S: "[a-z0-9]", Flags: "i"}, ast.StrN("#"))
		case 7: // order-by
			return &ast.Node{K: ast.Sort, C: []*ast.Node{name.Draw(t, "seq"), ast.CallN("string", ast.VarN(""))}, Dirs: []string{">"}}
		case 8: // a variable read before it is bound, bound outside any block
			return ast.ArrN(ast.VarN("u"), &ast.Node{K: ast.Assign, S: "u", C: []*ast.Node{small.Draw(t, "val")}}, ast.VarN("u"))
		case 9: // binding that depends on the input, read on the other branch
			return ast.N(ast.Cond, ast.CallN("exists", name.Draw(t, "c")), &ast.Node{K: ast.Assign, S: "u", C: []*ast.Node{name.Draw(t, "v")}}, ast.VarN("u"))
		case 10: // function bound outside a block and called
			return ast.ArrN(ast.CallE(ast.BlockN(ast.VarN("g")), ast.NumN(1)), &ast.Node{K: ast.Assign, S: "g", C: []*ast.Node{ast.LambdaN([]string{"x"}, "", ast.BinN("&", ast.CallN("string", ast.VarN("x")), ast.CallN("string", ast.VarN("u"))))}}, ast.CallE(ast.VarN("g"), name.Draw(t, "a")), &ast.Node{K: ast.Assign, S: "u", C: []*ast.Node{ast.StrN("!")}})
		case 14: // registered bindings next to a top-level assignment
			return ast.ArrN(ast.VarN("reg"), ast.VarN("u"), &ast.Node{K: ast.Assign, S: "u", C: []*ast.Node{small.Draw(t, "val")}}, ast.VarN("u"), ast.CallN("exists", ast.VarN("regf")))
		case 15: // a registered name shadowed by a top-level assignment
			return ast.ArrN(ast.VarN("reg"), &ast.Node{K: ast.Assign, S: "reg", C: []*ast.Node{name.Draw(t, "v")}}, ast.VarN("reg"))
		case 11: // a composed function whose first member is a context-defaulting built-in (reached without a call expression)
			f1 := rapid.SampledFrom([]string{"substringBefore", "substringAfter", "contains", "split", "pad", "match", "join", "lookup", "formatNumber", "replace", "string", "length"}).Draw(t, "f1")
			f2 := rapid.SampledFrom([]string{"string", "length", "boolean", "type", "count"}).Draw(t, "f2")
			return ast.N(ast.Chain, small.Draw(t, "lhs"), ast.BlockN(ast.N(ast.Chain, ast.VarN(f1), ast.VarN(f2))))
		case 12: // a bare built-in handed to a higher-order function
			f1 := rapid.SampledFrom([]string{"substringBefore", "substringAfter", "contains", "split", "pad", "string", "length", "uppercase", "number", "abs", "keys", "type"}).Draw(t, "f1")
			return ast.CallN(rapid.SampledFrom([]string{"map", "filter", "each", "sift"}).Draw(t, "hof"), name.Draw(t, "seq"), ast.VarN(f1))
		case 13: // a built-in bound to a variable and called under a path context with its first argument missing
			f1 := rapid.SampledFrom([]string{"substringBefore", "substringAfter", "contains", "split", "pad", "string", "length", "uppercase"}).Draw(t, "f1")
			return ast.BlockN(&ast.Node{K: ast.Assign, S: "g", C: []*ast.Node{ast.VarN(f1)}}, ast.ArrN(ast.PathN(name.Draw(t, "ctx"), ast.CallE(ast.VarN("g"), ast.StrN("a"))), ast.N(ast.Chain, ast.StrN("b-a"), ast.BlockN(ast.N(ast.Chain, ast.VarN("g"), ast.VarN("string"))))))
		}
		return chaos.Draw(t, "chaotic")
	})
}

// c05TimeFamily: $toMillis / $fromMillis calls on literal arguments, with a
// picture and without one (the default layouts), on texts that only one of the
// two readings accepts.
func c05TimeFamily(t *rapid.T) *ast.Node {
	pic := rapid.SampledFrom([]string{"[D01]/[M01]/[Y0001]", "[Y0001]-[M01]-[D01]T[H01]:[m01]:[s01][Z01:01]", "[Y0001][M01][D01]", "[D1] [MNn] [Y0001]"}).Draw(t, "tpic")
	txt := rapid.SampledFrom([]string{"02/01/2018", "2018-01-02T03:04:05+01:00", "2018-01-02T03:04:05.678Z", "2018-01-02", "20180102", "2 January 2018", "2018-01-02T03:04:05-0530"}).Draw(t, "ttxt")
	switch rapid.IntRange(0, 4).Draw(t, "tform") {
	case 0, 1:
		return ast.CallN("toMillis", ast.StrN(txt))
	case 2, 3:
		return ast.CallN("toMillis", ast.StrN(txt), ast.StrN(pic))
	}
	ms := rapid.SampledFrom([]float64{1514858645000, 0, 1514851200000}).Draw(t, "tms")
	if rapid.Bool().Draw(t, "twithpic") {
		return ast.CallN("fromMillis", ast.NumN(ms), ast.StrN(pic))
	}
	return ast.CallN("fromMillis", ast.NumN(ms))
}

// isTimeFamily recognises shape 27.
func isTimeFamily(p *ast.Node) bool {
	return p.K == ast.Call && len(p.C) >= 2 && p.C[0].K == ast.Var && (p.C[0].S == "toMillis" || p.C[0].S == "fromMillis") && (p.C[1].K == ast.Str || p.C[1].K == ast.Num)
}

// isClockDifference recognises shape 19: it reads the clock but its value, the
// difference of two readings within one evaluation, is always 0.
func isClockDifference(p *ast.Node) bool {
	return p.K == ast.Block && len(p.C) == 3 && p.C[0].K == ast.Assign && p.C[0].S == "a" && p.C[2].K == ast.Bin && p.C[2].S == "-" &&
		!p.C[1].Has(func(n *ast.Node) bool { return n.K == ast.Var && nondetBuiltins[n.S] })
}

// isTwoKeyConstructor recognises shapes 24/25: a constructor with one literal
// and one computed key over plain names. Its value is compared as an unordered
// object, and which of two failing members is reported is sanctioned (Multi).
func isTwoKeyConstructor(p *ast.Node) bool {
	obj := p
	if p.K == ast.Path && len(p.C) == 2 {
		obj = p.C[1]
	}
	if obj.K != ast.Obj || len(obj.C) != 4 || obj.C[0].K != ast.Str {
		return false
	}
	return !p.Has(func(n *ast.Node) bool {
		return n.K == ast.Wild || n.K == ast.Desc || (n.K == ast.Var && (nondetBuiltins[n.S] || orderExposing[n.S]))
	})
}

// c05BareBuiltin recognises shape 21 ($map([..], $f) or x ~> $f) and returns f.
func c05BareBuiltin(p *ast.Node) string {
	names := map[string]bool{"join": true, "sum": true, "count": true, "append": true, "reduce": true, "map": true, "merge": true, "string": true, "substringBefore": true}
	switch {
	case p.K == ast.Call && len(p.C) == 3 && p.C[0].K == ast.Var && p.C[0].S == "map" && p.C[2].K == ast.Var && names[p.C[2].S]:
		return p.C[2].S
	case p.K == ast.Chain && len(p.C) == 2 && p.C[1].K == ast.Var && names[p.C[1].S]:
		return p.C[1].S
	}
	return ""
}

func c05Multi(prog *ast.Node) bool {
	return prog.Has(func(n *ast.Node) bool {
		return (n.K == ast.Obj && len(n.C) > 2) || (n.K == ast.Group && len(n.C) > 3)
	})
}

// TestC05_Histories is the state-machine check.
func TestC05_Histories(t *testing.T) {
	rec := begin(t, "C05", "rapid state machine: pools of 1..4 compiled expressions, a third of them carrying Expr-level registered variables/extensions (chain/partial/context-defaulting/lambda/regex/order-by templates and type-chaotic programs without $random/$shuffle/$now/$millis and without map-order-exposing constructs) and 1..3 inputs; actions eval(i,j), evalFresh(i,j), print(i), up to ~25 steps; invariant: outcome is a function of (text, input); String() and the deep dump of the syntax tree are constant; non-trivial = some expression with a call/chain/partial/lambda was evaluated >= 2 times with another evaluation in between; distinct by the texts + inputs + action sequence")
	defer finish(t, rec)
	progs := genStateful()
	docs := rapid.OneOf(
		gen.Doc(gen.DocOpts{NestedArrays: 0.2}),
		gen.Doc(gen.DocOpts{NestedArrays: 0.2}),
		gen.Doc(gen.DocOpts{NestedArrays: 0.2}),
		// scalar documents (the context item of a context-defaulting call at top level)
		rapid.Map(rapid.SampledFrom([]string{`"banana"`, `"abc-a"`, `"b"`, `3`, `10`, `"x a y"`, `""`}), func(s string) val.Value { return val.MustJSON(s) }),
	)
	rapidRun(t, rec, 3000, 60000, func(rt *rapid.T) {
		var c c05Case
		var asts []*ast.Node
		ne := rapid.IntRange(1, 4).Draw(rt, "nexprs")
		for len(c.Texts) < ne {
			p := ast.Normalize(progs.Draw(rt, "prog"))
			if !isDeterministic(p) && !isClockDifference(p) && !isTwoKeyConstructor(p) {
				rec.Excluded()
				continue
			}
			text := ast.Print(p)
			if _, o := port.Compile(text); o != nil {
				continue
			}
			c.Texts = append(c.Texts, text)
			c.Reg = append(c.Reg, rapid.IntRange(0, 2).Draw(rt, "registered") == 0)
			c.Multi = append(c.Multi, c05Multi(p))
			asts = append(asts, p)
			// $formatNumber(x, picture[, options]): its twin with the other option
			// setting joins the pool (the same picture read under two formats)
			if p.K == ast.Call && len(p.C) >= 3 && p.C[0].K == ast.Var && p.C[0].S == "formatNumber" && len(c.Texts) < 4 {
				twin := p.Clone()
				if len(twin.C) == 4 {
					twin.C = twin.C[:3]
				} else {
					twin.C = append(twin.C, ast.N(ast.Obj, ast.StrN("decimal-separator"), ast.StrN(","), ast.StrN("grouping-separator"), ast.StrN(".")))
				}
				twin = ast.Normalize(twin)
				c.Texts = append(c.Texts, ast.Print(twin))
				c.Reg = append(c.Reg, false)
				c.Multi = append(c.Multi, false)
				asts = append(asts, twin)
				ne++
			}
			// time parsing/formatting: one or two more members of the family join
			// the pool (a picture used by one call must not change what another reads)
			if isTimeFamily(p) {
				for k := 0; k < 2 && len(c.Texts) < 4; k++ {
					twin := ast.Normalize(c05TimeFamily(rt))
					c.Texts = append(c.Texts, ast.Print(twin))
					c.Reg = append(c.Reg, false)
					c.Multi = append(c.Multi, false)
					asts = append(asts, twin)
					ne++
				}
			}
			// a built-in reached without a call expression: the pool also gets an
			// expression that calls the same built-in through another name
			if bare := c05BareBuiltin(p); bare != "" && len(c.Texts) < 4 {
				twin := ast.Normalize(ast.BlockN(&ast.Node{K: ast.Assign, S: "al", C: []*ast.Node{ast.VarN(bare)}}, ast.CallE(ast.VarN("al"), ast.ArrN(ast.StrN("a")), ast.StrN("-"))))
				c.Texts = append(c.Texts, ast.Print(twin))
				c.Reg = append(c.Reg, false)
				c.Multi = append(c.Multi, false)
				asts = append(asts, twin)
				ne++
			}
		}
		nd := rapid.IntRange(1, 3).Draw(rt, "ndocs")
		for i := 0; i < nd; i++ {
			c.Docs = append(c.Docs, val.JSON(docs.Draw(rt, "doc")))
		}
		m, err := newC05Machine(c)
		if err != "" {
			rt.Skip(err)
		}
		fail := func(msg string) {
			c.Steps = append([]c05Step{}, m.c.Steps...)
			if rec.Fail(c, msg) {
				rt.Fatalf("%s\n  history: %+v\n  texts: %q", msg, c.Steps, c.Texts)
			}
		}
		do := func(op string) func(*rapid.T) {
			return func(rt *rapid.T) {
				s := c05Step{Op: op, Expr: rapid.IntRange(0, ne-1).Draw(rt, "i"), Doc: rapid.IntRange(0, nd-1).Draw(rt, "j")}
				m.c.Steps = append(m.c.Steps, s)
				if msg := m.step(s); msg != "" {
					fail(msg)
				}
				rec.Eval(1)
			}
		}
		rt.Repeat(map[string]func(*rapid.T){
			"eval":  do("eval"),
			"eval2": do("eval"),
			"fresh": do("fresh"),
			"print": do("print"),
			"rereg": do("rereg"),
		})
		// a process start costs far more than a history: every 10th history in the
		// quick tier, every 60th in the thorough tier (which runs 20 times as many)
		if rapid.IntRange(0, stats.Scale(9, 59)).Draw(rt, "freshProcess") == 0 {
			c.Steps = append([]c05Step{}, m.c.Steps...)
			c.FreshProc = []int{rapid.IntRange(0, ne-1).Draw(rt, "fpExpr"), rapid.IntRange(0, nd-1).Draw(rt, "fpDoc")}
			rec.Class("compared_with_fresh_process")
			if msg := c05FreshProcess(c); msg != "" {
				fail(msg)
			}
		}
		nt := false
		for i, g := range m.gapped {
			if g && asts[i].Has(func(n *ast.Node) bool {
				return n.K == ast.Call || n.K == ast.Chain || n.K == ast.Partial || n.K == ast.Lambda
			}) {
				nt = true
			}
		}
		key := strings.Join(c.Texts, "\x00") + "|" + strings.Join(c.Docs, "\x00") + fmt.Sprint(m.c.Steps)
		rec.Case(key, nt, func() interface{} {
			return map[string]interface{}{"texts": c.Texts, "inputs": len(c.Docs), "steps": m.c.Steps}
		})
		rec.ClassN("steps", len(m.c.Steps))
		if nt {
			rec.Class("history_with_gapped_reevaluation")
		}
	})
}

var _ = sort.Strings
