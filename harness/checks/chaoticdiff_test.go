package checks

// Chaotic differential: type-chaotic programs (any expression in any operand /
// argument position, all built-ins) judged by the reference evaluator wherever
// the reference models every construct of the program. It is the widest net
// the harness has: it is not tied to one shape per property, so it reaches
// combinations the per-property generators were not written for. Each
// property's check runs it restricted to the programs that contain that
// property's constructs (see cdFilters) and judges only deterministic,
// order-insensitive programs.

import (
	"os"
	"testing"

	"pgregory.net/rapid"

	"verif/harness/internal/ast"
	"verif/harness/internal/gen"
	"verif/harness/internal/port"
	"verif/harness/internal/stats"
	"verif/harness/internal/val"
)

func init() {
	for _, id := range []string{"C01", "C02", "C03", "C12", "C13", "C14", "C15", "C16"} {
		registerReplay("Test"+id+"_ChaoticDifferential", diffReplay)
	}
}

func hasVarCall(prog *ast.Node, names ...string) bool {
	set := map[string]bool{}
	for _, n := range names {
		set[n] = true
	}
	return prog.Has(func(n *ast.Node) bool { return n.K == ast.Var && set[n.S] })
}

// cdFilters: which programs belong to which property.
var cdFilters = map[string]func(*ast.Node) bool{
	"C01": func(p *ast.Node) bool {
		return p.Has(func(n *ast.Node) bool { return n.K == ast.Path || n.K == ast.Wild || n.K == ast.Desc })
	},
	"C02": func(p *ast.Node) bool { return p.Has(func(n *ast.Node) bool { return n.K == ast.Pred }) },
	"C03": func(p *ast.Node) bool {
		return p.Has(func(n *ast.Node) bool { return n.K == ast.Bin || n.K == ast.Neg || n.K == ast.Cond || n.K == ast.Range })
	},
	"C12": func(p *ast.Node) bool {
		return p.Has(func(n *ast.Node) bool {
			return n.K == ast.Lambda || n.K == ast.Partial || n.K == ast.Chain || n.K == ast.Assign || n.K == ast.Block
		})
	},
	"C13": func(p *ast.Node) bool {
		return p.Has(func(n *ast.Node) bool { return n.K == ast.Sort }) || hasVarCall(p, "sort")
	},
	"C14": func(p *ast.Node) bool {
		return p.Has(func(n *ast.Node) bool { return n.K == ast.Obj || n.K == ast.Group }) || hasVarCall(p, "keys", "each", "sift", "spread", "merge", "lookup")
	},
	"C15": func(p *ast.Node) bool {
		return hasVarCall(p, "map", "filter", "reduce", "single", "append", "reverse", "zip", "distinct", "count", "sum", "max", "min", "average")
	},
	"C16": func(p *ast.Node) bool {
		return hasVarCall(p, "length", "substring", "substringBefore", "substringAfter", "pad", "trim", "uppercase", "lowercase", "contains", "split", "join", "replace", "base64encode", "base64decode", "encodeUrlComponent", "decodeUrlComponent", "encodeUrl", "decodeUrl")
	},
}

// chaoticDiff is the body shared by the per-property tests.
func chaoticDiff(t *testing.T, id string, quick, thorough int) {
	filter := cdFilters[id]
	rec := begin(t, id, "rapid: type-chaotic programs (every node type, every built-in with 0..max+1 arguments, any expression in any position; depth <= 4) that contain this property's constructs, over generated null-free documents; judged by the reference evaluator whenever it models every construct of the program (value, 'no value' and error kind must agree); programs that expose Go map order, $random/$shuffle/$now/$millis and programs the reference does not model are excluded and counted; non-trivial = >= 4 AST nodes and the outcome is not a compile error; distinct by program text + input")
	defer finish(t, rec)
	progs := gen.Chaotic(gen.ChaoticOpts{MaxDepth: 4, Exclude: c05Exclude})
	docs := gen.Doc(gen.DocOpts{NullFree: true, NestedArrays: 0.15})
	rapidRun(t, rec, quick, thorough, func(rt *rapid.T) {
		prog := ast.Normalize(progs.Draw(rt, "prog"))
		if !filter(prog) {
			rec.Class("other_property")
			return
		}
		if !isDeterministic(prog) {
			rec.Class("map_order_or_nondeterministic")
			rec.Excluded()
			return
		}
		doc := docs.Draw(rt, "doc")
		c := mkDiff(prog, doc, true)
		p, r, m, skip := diffRun(c)
		if skip {
			rec.Class("skipped_" + r.Why)
			return
		}
		rec.Case(c.Text+"|"+c.Input, prog.Count() >= 4 && p.Kind != port.KCompileError, diffSample(c, p))
		rec.Class("outcome_" + p.Kind)
		if p.Kind == port.KPanic {
			return // C09's subject
		}
		if m != "" && rec.Fail(c, m) {
			rt.Fatalf("%s\n  expr: %s\n  input: %s", m, c.Text, c.Input)
		}
	})
}

func TestC01_ChaoticDifferential(t *testing.T) { chaoticDiff(t, "C01", 60000, 1500000) }
func TestC02_ChaoticDifferential(t *testing.T) { chaoticDiff(t, "C02", 100000, 2500000) }
func TestC03_ChaoticDifferential(t *testing.T) { chaoticDiff(t, "C03", 60000, 1500000) }
func TestC12_ChaoticDifferential(t *testing.T) { chaoticDiff(t, "C12", 60000, 1500000) }
func TestC13_ChaoticDifferential(t *testing.T) { chaoticDiff(t, "C13", 150000, 3000000) }
func TestC14_ChaoticDifferential(t *testing.T) { chaoticDiff(t, "C14", 100000, 2500000) }
func TestC15_ChaoticDifferential(t *testing.T) { chaoticDiff(t, "C15", 80000, 2000000) }
func TestC16_ChaoticDifferential(t *testing.T) { chaoticDiff(t, "C16", 80000, 2000000) }

// TestChaoticDiffExplore is a development aid (VERIF_CHAOTICDIFF=<id>): it
// prints disagreements instead of failing at the first one.
func TestChaoticDiffExplore(t *testing.T) {
	id := os.Getenv("VERIF_CHAOTICDIFF")
	if id == "" {
		t.Skip("set VERIF_CHAOTICDIFF")
	}
	progs := gen.Chaotic(gen.ChaoticOpts{MaxDepth: 4, Exclude: c05Exclude})
	docs := gen.Doc(gen.DocOpts{NullFree: true, NestedArrays: 0.15})
	seen := map[string]int{}
	n, judged := 0, 0
	rapid.Check(t, func(rt *rapid.T) {
		prog := ast.Normalize(progs.Draw(rt, "prog"))
		n++
		if !isDeterministic(prog) {
			return
		}
		doc := docs.Draw(rt, "doc")
		c := mkDiff(prog, doc, true)
		p, r, m, skip := diffRun(c)
		if skip || p.Kind == port.KPanic {
			return
		}
		judged++
		if m != "" {
			key := p.Kind + "/" + p.Err + " vs " + r.Kind + "/" + r.Err
			seen[key]++
			if seen[key] <= 3 {
				t.Logf("DISAGREE %s\n   expr: %s\n   input: %s\n   %s", key, c.Text, val.JSON(doc), m)
			}
		}
	})
	t.Logf("programs=%d judged=%d disagreement classes=%v", n, judged, seen)
	_ = stats.Root
}
