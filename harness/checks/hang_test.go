package checks

import (
	"strings"
	"sync/atomic"

	"pgregory.net/rapid"

	"verif/harness/internal/stats"
)

// hangGuard keeps a rapid property from shrinking a hang. Every re-execution
// of a hanging case costs both stages of the isolation time limit (3 s + 30 s)
// and rapid's shrink-time limit is only checked between passes, so shrinking
// such a case can take longer than the driver's whole budget. A failure whose
// message says that the call did not return is therefore recorded as it is,
// and the property becomes a no-op for the rest of the test (rapid then ends
// the shrink phase at once and reports the test as failed).
type hangGuard struct{ seen int32 }

func (h *hangGuard) tripped() bool { return atomic.LoadInt32(&h.seen) != 0 }

// fail reports msg for case c; it does not return when the case fails.
func (h *hangGuard) fail(rt *rapid.T, rec *stats.Recorder, c interface{}, msg, detail string) {
	if msg == "" || !rec.Fail(c, msg) {
		return
	}
	if strings.Contains(msg, "did not return") {
		rec.FlushFail()
		atomic.StoreInt32(&h.seen, 1)
	}
	rt.Fatalf("%s%s", msg, detail)
}
