package checks

// C13 — Order-by and $sort return stable, correctly ordered permutations.
// Oracles: validity predicates in both directions (permutation of the input;
// every adjacent pair ordered by the key tuple under the stated rules; equal
// key tuples in input order) computed directly from the data, plus agreement
// with the reference evaluator (which sorts with a plain insertion sort).

import (
	"fmt"
	"testing"

	"pgregory.net/rapid"

	"verif/harness/internal/ast"
	"verif/harness/internal/port"
	"verif/harness/internal/stats"
	"verif/harness/internal/val"
)

func init() {
	for _, n := range []string{"TestC13_Exhaustive", "TestC13_OrderBy", "TestC13_SortFunction", "TestC13_Findings"} {
		registerReplay(n, diffReplay)
	}
}

type sortTerm struct {
	member string // k1 | k2 | k3
	kind   string // member | neg | concat
	other  string // second member for concat
	dir    string // "", "<", ">"
}

func (s sortTerm) node() *ast.Node {
	switch s.kind {
	case "uminus": // written with the unary minus: ^(>-k1)
		return ast.N(ast.Neg, ast.NameN(s.member))
	case "neg":
		return ast.BinN("*", ast.NameN(s.member), ast.NumN(-1))
	case "concat":
		return ast.BinN("&", ast.NameN(s.member), ast.NameN(s.other))
	}
	return ast.NameN(s.member)
}

// key computes the sort key of an item for a term directly from the data:
// (value, present, error)
func (s sortTerm) key(item val.Value) (val.Value, bool, string) {
	get := func(m string) (val.Value, bool) {
		v, ok := item.O[m]
		return v, ok
	}
	switch s.kind {
	case "neg", "uminus":
		v, ok := get(s.member)
		if !ok {
			return val.U, false, ""
		}
		if v.K != val.Num {
			if s.kind == "uminus" {
				return val.U, false, "EvalError:ErrNonNumberRHS"
			}
			return val.U, false, "EvalError:ErrNonNumberLHS"
		}
		return val.N(v.N * -1), true, ""
	case "concat":
		a, _ := get(s.member)
		b, _ := get(s.other)
		str := func(v val.Value) string {
			switch v.K {
			case val.Str:
				return v.S
			case val.Num:
				return val.Canon(v)
			case val.Bool:
				return val.Canon(v)
			}
			return ""
		}
		if a.K == val.Arr || b.K == val.Arr || a.K == val.Obj || b.K == val.Obj {
			return val.U, false, "skip" // the direct oracle does not render containers; the reference judges
		}
		return val.S(str(a) + str(b)), true, ""
	}
	v, ok := get(s.member)
	return v, ok, ""
}

// checkOrdered is the validity predicate: out must be a permutation of in,
// ordered by the key tuples (ascending unless the term says '>', absent keys
// last), with equal tuples in input order.
func checkOrdered(in, out []val.Value, terms []sortTerm) string {
	if len(in) != len(out) {
		return fmt.Sprintf("the result has %d items, the input %d", len(out), len(in))
	}
	pos := map[float64]int{}
	for i, it := range in {
		pos[it.O["id"].N] = i
	}
	seen := map[float64]bool{}
	for _, it := range out {
		if it.K != val.Obj {
			return "a result item is not one of the input objects"
		}
		id := it.O["id"].N
		if _, ok := pos[id]; !ok || seen[id] {
			return fmt.Sprintf("the result is not a permutation of the input (id %v)", id)
		}
		seen[id] = true
		if !val.Equal(it, in[pos[id]]) {
			return fmt.Sprintf("item id %v was altered", id)
		}
	}
	// cmp: -1 a before b, +1 a after b, 0 equal tuples
	cmp := func(a, b val.Value) int {
		for _, t := range terms {
			ka, pa, _ := t.key(a)
			kb, pb, _ := t.key(b)
			switch {
			case !pa && !pb:
				continue
			case !pa:
				return 1
			case !pb:
				return -1
			}
			if val.Equal(ka, kb) {
				continue
			}
			less := false
			if ka.K == val.Num {
				less = ka.N < kb.N
			} else {
				less = ka.S < kb.S
			}
			if t.dir == ">" {
				less = !less
			}
			if less {
				return -1
			}
			return 1
		}
		return 0
	}
	for i := 0; i+1 < len(out); i++ {
		switch c := cmp(out[i], out[i+1]); {
		case c > 0:
			return fmt.Sprintf("items at positions %d and %d (ids %v, %v) are out of order", i, i+1, out[i].O["id"].N, out[i+1].O["id"].N)
		case c == 0 && pos[out[i].O["id"].N] > pos[out[i+1].O["id"].N]:
			return fmt.Sprintf("items with equal keys (ids %v, %v) do not keep their input order: the sort is not stable", out[i].O["id"].N, out[i+1].O["id"].N)
		}
	}
	return ""
}

// keyProblem reports whether the direct oracle expects an error (or cannot judge).
func keyProblem(items []val.Value, terms []sortTerm) string {
	for _, t := range terms {
		sawNum, sawStr := false, false
		for _, it := range items {
			k, present, err := t.key(it)
			if err != "" {
				return err
			}
			if !present {
				continue
			}
			switch k.K {
			case val.Num:
				sawNum = true
			case val.Str:
				sawStr = true
			default:
				return "error"
			}
		}
		if sawNum && sawStr {
			return "error"
		}
	}
	return ""
}

func orderByProgram(terms []sortTerm) *ast.Node {
	s := &ast.Node{K: ast.Sort, C: []*ast.Node{ast.NameN("items")}}
	for _, t := range terms {
		s.C = append(s.C, t.node())
		s.Dirs = append(s.Dirs, t.dir)
	}
	// the [] marker keeps a single survivor in an array so that the result is always a list
	return s
}

func resultItems(v val.Value) []val.Value {
	if v.K == val.Arr {
		return v.A
	}
	return []val.Value{v}
}

func c13Judge(rec *stats.Recorder, c diffCase, items []val.Value, terms []sortTerm) (string, port.Outcome, bool) {
	p, r, m, skip := diffRun(c)
	if skip {
		return "", p, true
	}
	if m != "" {
		return m, p, false
	}
	prob := keyProblem(items, terms)
	switch {
	case prob == "skip":
	case prob != "":
		if p.Kind != port.KError {
			m = fmt.Sprintf("a sort key of another type or of mixed number/string type must be an error, the library gives %s", p.String())
		}
	case len(items) == 0:
	default:
		if p.Kind != port.KValue {
			m = "sortable input but the library gives " + p.String()
		} else {
			m = checkOrdered(items, resultItems(p.Val), terms)
		}
	}
	_ = r
	return m, p, false
}

var c13KeyDomain = []val.Value{val.N(1), val.N(2), val.N(3), val.U}

// TestC13_Exhaustive: every array of length <= 4 over a 3-value + missing key
// domain x every one-term specification, and two-term specifications over
// pairs of such keys.
func TestC13_Exhaustive(t *testing.T) {
	rec := begin(t, "C13", "exhaustive: every array of 0..4 objects whose key k1 ranges over {1,2,3,missing} (and k2 over {\"a\",\"b\",missing} for the two-term part) x every direction combination of one- and two-term specifications; judged by the validity predicates (permutation, adjacent order, stability, missing last) and by the reference; non-trivial = >= 2 items with a tie or a missing key or two terms; distinct by (array, specification)")
	defer finish(t, rec)
	n := 0
	dirs := []string{"", "<", ">"}
	var arrays [][]val.Value
	var build func(cur []val.Value, length int)
	build = func(cur []val.Value, length int) {
		if len(cur) == length {
			arrays = append(arrays, append([]val.Value{}, cur...))
			return
		}
		for _, k := range c13KeyDomain {
			m := map[string]val.Value{"id": val.N(float64(len(cur)))}
			if !k.IsUndef() {
				m["k1"] = k
			}
			build(append(cur, val.O(m)), length)
		}
	}
	for l := 0; l <= 4; l++ {
		build(nil, l)
	}
	run := func(items []val.Value, terms []sortTerm, key string) bool {
		doc := val.O(map[string]val.Value{"items": val.A(items...)})
		c := mkDiff(orderByProgram(terms), doc, true)
		m, p, skip := c13Judge(rec, c, items, terms)
		n++
		if skip {
			return true
		}
		nt := len(items) >= 2
		rec.Case(key, nt, diffSample(c, p))
		rec.Class("outcome_" + p.Kind)
		if m != "" && rec.FailNow(c, m) >= 8 {
			return false
		}
		return true
	}
	for ai, items := range arrays {
		for _, d := range dirs {
			if !run(items, []sortTerm{{member: "k1", kind: "member", dir: d}}, fmt.Sprintf("1|%d|%s", ai, d)) {
				return
			}
		}
		if !run(items, []sortTerm{{member: "k1", kind: "neg", dir: ""}}, fmt.Sprintf("neg|%d", ai)) {
			return
		}
	}
	// two terms: k1 over {1,2,missing}, k2 over {"a","b",missing}, length <= 3
	k1s := []val.Value{val.N(1), val.N(2), val.U}
	k2s := []val.Value{val.S("a"), val.S("b"), val.U}
	var two [][]val.Value
	var build2 func(cur []val.Value, length int)
	build2 = func(cur []val.Value, length int) {
		if len(cur) == length {
			two = append(two, append([]val.Value{}, cur...))
			return
		}
		for _, a := range k1s {
			for _, b := range k2s {
				m := map[string]val.Value{"id": val.N(float64(len(cur)))}
				if !a.IsUndef() {
					m["k1"] = a
				}
				if !b.IsUndef() {
					m["k2"] = b
				}
				build2(append(cur, val.O(m)), length)
			}
		}
	}
	for l := 2; l <= 3; l++ {
		build2(nil, l)
	}
	for ai, items := range two {
		for _, d1 := range dirs {
			for _, d2 := range dirs {
				if !run(items, []sortTerm{{member: "k1", kind: "member", dir: d1}, {member: "k2", kind: "member", dir: d2}}, fmt.Sprintf("2|%d|%s|%s", ai, d1, d2)) {
					return
				}
			}
		}
	}
	rec.Exhaustive("arrays_le4_x_specifications", n)
	rec.AllExhaustive()
}

func genSortItems(t *rapid.T, length int, errorClause bool) []val.Value {
	items := make([]val.Value, length)
	numDom := []val.Value{val.N(1), val.N(2), val.N(3), val.N(2.5), val.N(-1)}
	strDom := []val.Value{val.S("a"), val.S("b"), val.S("c"), val.S("é"), val.S("B"), val.S("")}
	// per key: numeric or string domain (consistent), unless the error clause is drawn
	doms := map[string][]val.Value{}
	for _, k := range []string{"k1", "k2", "k3"} {
		if rapid.Bool().Draw(t, "numericKey") {
			doms[k] = numDom[:rapid.IntRange(2, len(numDom)).Draw(t, "domSize")]
		} else {
			doms[k] = strDom[:rapid.IntRange(2, len(strDom)).Draw(t, "domSize")]
		}
	}
	for i := range items {
		m := map[string]val.Value{"id": val.N(float64(i))}
		for _, k := range []string{"k1", "k2", "k3"} {
			if rapid.IntRange(0, 7).Draw(t, "missing") == 0 {
				continue
			}
			m[k] = rapid.SampledFrom(doms[k]).Draw(t, "kv")
			if errorClause && rapid.IntRange(0, 12).Draw(t, "bad") == 0 {
				m[k] = rapid.SampledFrom([]val.Value{val.True, val.A(val.N(1)), val.S("x"), val.N(9), val.O(nil)}).Draw(t, "badv")
			}
		}
		items[i] = val.O(m)
	}
	return items
}

func genSortTerms(t *rapid.T) []sortTerm {
	n := rapid.IntRange(1, 3).Draw(t, "nterms")
	terms := make([]sortTerm, n)
	members := []string{"k1", "k2", "k3"}
	for i := range terms {
		terms[i] = sortTerm{member: rapid.SampledFrom(members).Draw(t, "m"), kind: "member", dir: rapid.SampledFrom([]string{"", "<", ">"}).Draw(t, "dir")}
		switch rapid.IntRange(0, 7).Draw(t, "termKind") {
		case 0:
			terms[i].kind = "neg"
		case 2:
			terms[i].kind = "uminus"
		case 1:
			terms[i].kind = "concat"
			terms[i].other = rapid.SampledFrom(members).Draw(t, "m2")
		}
	}
	return terms
}

// TestC13_OrderBy: random arrays (<= 8 and 13..200 items) and specifications.
func TestC13_OrderBy(t *testing.T) {
	rec := begin(t, "C13", "rapid: arrays of up to 8 and of 13..200 objects {id, k1, k2, k3} with keys over small number or string domains (many ties), missing members and — for the error clause — booleans, arrays, objects and mixed types; specifications of 1..3 terms, each ascending by default or with <, descending with >, keys being members, negated members or concatenations; judged by the validity predicates and the reference; non-trivial = >= 2 items and (a tie or a missing key or >= 2 terms); stability class = >= 13 items with a tie; distinct by document + specification")
	defer finish(t, rec)
	rapidRun(t, rec, 15000, 200000, func(rt *rapid.T) {
		var length int
		if rapid.IntRange(0, 2).Draw(rt, "long") == 0 {
			length = rapid.IntRange(13, 200).Draw(rt, "lenLong")
		} else {
			length = rapid.IntRange(0, 8).Draw(rt, "len")
		}
		errorClause := rapid.IntRange(0, 5).Draw(rt, "errorClause") == 0
		items := genSortItems(rt, length, errorClause)
		terms := genSortTerms(rt)
		doc := val.O(map[string]val.Value{"items": val.A(items...)})
		c := mkDiff(orderByProgram(terms), doc, true)
		m, p, skip := c13Judge(rec, c, items, terms)
		if skip {
			rec.Class("skipped")
			return
		}
		tr := runRef(c).Trace
		nt := length >= 2 && (tr.SortTies || tr.SortMissing || len(terms) >= 2)
		rec.Case(c.Text+"|"+c.Input, nt, func() interface{} {
			return map[string]interface{}{"expr": c.Text, "items": length, "outcome": p.Kind + " " + p.Err}
		})
		rec.Class("outcome_" + p.Kind)
		if length >= 13 && tr.SortTies {
			rec.Class("stability_observable")
		}
		if tr.SortMissing {
			rec.Class("missing_keys")
		}
		if m != "" && rec.Fail(c, m) {
			rt.Fatalf("%s\n  expr: %s\n  input: %s", m, c.Text, trunc(c.Input, 600))
		}
	})
	if n := rec.Evaluations(); n > 2000 && rec.ClassCount("stability_observable")*100 < n*10 {
		rec.Fatal("generator regression: fewer than 10% of the cases can observe stability")
	}
}

// TestC13_SortFunction: $sort on number/string arrays and with comparators.
func TestC13_SortFunction(t *testing.T) {
	rec := begin(t, "C13", "rapid: $sort(a) on all-number and all-string arrays (<= 8 and 13..200 members, many duplicates), on mixed and other-typed arrays (error clause), on scalars; $sort(a, f) with comparators derived from strict weak orders on one member ($l.k1 > $r.k1, descending variant) or lexicographically on two members, over arrays of objects with all keys present; judged by the validity predicates (permutation, order, stability) and the reference; non-trivial = >= 2 members; distinct by program + input")
	defer finish(t, rec)
	rapidRun(t, rec, 15000, 200000, func(rt *rapid.T) {
		var length int
		if rapid.IntRange(0, 2).Draw(rt, "long") == 0 {
			length = rapid.IntRange(13, 200).Draw(rt, "lenLong")
		} else {
			length = rapid.IntRange(0, 8).Draw(rt, "len")
		}
		var m string
		var c diffCase
		var p port.Outcome
		switch mode := rapid.IntRange(0, 5).Draw(rt, "mode"); {
		case mode <= 1: // plain $sort on scalars
			arr := make([]val.Value, length)
			kind := rapid.IntRange(0, 4).Draw(rt, "kind")
			for i := range arr {
				switch kind {
				case 0, 1:
					arr[i] = val.N(rapid.SampledFrom([]float64{1, 2, 3, 2.5, -1, 0, 10}).Draw(rt, "n"))
				case 2, 3:
					arr[i] = val.S(rapid.SampledFrom([]string{"a", "b", "c", "é", "B", "", "ab", "10", "9"}).Draw(rt, "s"))
				default:
					arr[i] = rapid.SampledFrom([]val.Value{val.N(1), val.S("a"), val.True, val.A(val.N(1)), val.O(nil)}).Draw(rt, "mixed")
				}
			}
			doc := val.O(map[string]val.Value{"a": val.A(arr...)})
			call := ast.CallN("sort", ast.PathN(ast.VarN("$"), ast.NameN("a")))
			ascending := true
			if kind <= 3 && rapid.IntRange(0, 2).Draw(rt, "withComparator") == 0 {
				// a comparator on an array that could also be sorted natively
				l, r := ast.VarN("l"), ast.VarN("r")
				var body *ast.Node
				switch rapid.IntRange(0, 4).Draw(rt, "cmp") {
				case 0:
					body = ast.BinN("<", l, r) // descending
					ascending = false
				case 1:
					body = ast.BinN(">", l, r) // ascending, spelled out
				case 2:
					body = ast.BoolN(false) // nothing ever moves: the input order
					ascending = false
				case 3:
					body = ast.BinN(">", ast.CallN("length", ast.CallN("string", l)), ast.CallN("length", ast.CallN("string", r)))
					ascending = false
				default:
					body = ast.BinN(">", ast.CallN("abs", ast.CallN("number", ast.CallN("boolean", l))), ast.NumN(5)) // constant false through calls
					ascending = false
				}
				call = ast.CallN("sort", ast.PathN(ast.VarN("$"), ast.NameN("a")), ast.LambdaN([]string{"l", "r"}, "", body))
				rec.Class("comparator_on_scalars")
			}
			c = mkDiff(call, doc, true)
			var skip bool
			p, _, m, skip = diffRun(c)
			if skip {
				return
			}
			if m == "" && ascending && p.Kind == port.KValue && p.Val.K == val.Arr {
				// direct: ordered permutation
				out := p.Val.A
				if len(out) != len(arr) {
					m = "result length differs from the input length"
				}
				count := map[string]int{}
				for _, x := range arr {
					count[val.Canon(x)]++
				}
				for _, x := range out {
					count[val.Canon(x)]--
				}
				for k, v := range count {
					if v != 0 && m == "" {
						m = "the result is not a permutation of the input (" + k + ")"
					}
				}
				for i := 0; i+1 < len(out) && m == ""; i++ {
					a, b := out[i], out[i+1]
					if (a.K == val.Num && a.N > b.N) || (a.K == val.Str && a.S > b.S) {
						m = fmt.Sprintf("members at positions %d and %d are out of order", i, i+1)
					}
				}
			}
		default: // comparator
			items := genSortItems(rt, length, false)
			// all keys present, consistent type per key
			dom := map[string]bool{}
			for i := range items {
				for _, k := range []string{"k1", "k2"} {
					if _, ok := items[i].O[k]; !ok {
						if dom[k] {
							items[i].O[k] = val.S("a")
						} else {
							items[i].O[k] = val.N(1)
						}
					} else if i == 0 {
						dom[k] = items[i].O[k].K == val.Str
					}
				}
			}
			// make the key types consistent with item 0
			for i := range items {
				for _, k := range []string{"k1", "k2"} {
					if (items[i].O[k].K == val.Str) != dom[k] {
						if dom[k] {
							items[i].O[k] = val.S("b")
						} else {
							items[i].O[k] = val.N(2)
						}
					}
				}
			}
			l, r := ast.VarN("l"), ast.VarN("r")
			mem := func(v *ast.Node, k string) *ast.Node { return ast.PathN(v.Clone(), ast.NameN(k)) }
			var body *ast.Node
			var terms []sortTerm
			switch mode {
			case 2:
				body = ast.BinN(">", mem(l, "k1"), mem(r, "k1"))
				terms = []sortTerm{{member: "k1", kind: "member"}}
			case 3:
				body = ast.BinN("<", mem(l, "k1"), mem(r, "k1"))
				terms = []sortTerm{{member: "k1", kind: "member", dir: ">"}}
			default:
				// lexicographic on (k1, k2)
				body = ast.BinN("or", ast.BinN(">", mem(l, "k1"), mem(r, "k1")),
					ast.BinN("and", ast.BinN("=", mem(l, "k1"), mem(r, "k1")), ast.BinN(">", mem(l, "k2"), mem(r, "k2"))))
				terms = []sortTerm{{member: "k1", kind: "member"}, {member: "k2", kind: "member"}}
			}
			doc := val.O(map[string]val.Value{"items": val.A(items...)})
			c = mkDiff(ast.CallN("sort", ast.PathN(ast.VarN("$"), ast.NameN("items")), ast.LambdaN([]string{"l", "r"}, "", body)), doc, true)
			var skip bool
			p, _, m, skip = diffRun(c)
			if skip {
				return
			}
			if m == "" && p.Kind == port.KValue {
				m = checkOrdered(items, resultItems(p.Val), terms)
			}
		}
		rec.Case(c.Text+"|"+c.Input, length >= 2, func() interface{} {
			return map[string]interface{}{"expr": c.Text, "members": length, "outcome": p.Kind + " " + p.Err}
		})
		rec.Class("outcome_" + p.Kind)
		if length >= 13 {
			rec.Class("long_input")
		}
		if m != "" && rec.Fail(c, m) {
			rt.Fatalf("%s\n  expr: %s\n  input: %s", m, c.Text, trunc(c.Input, 600))
		}
	})
}
