package checks

// C14 — Object construction, grouping and object functions share one object
// model. Oracles: the reference evaluator (partition law, duplicate / illegal
// key errors), a direct partition computed from the data for the plain
// templates, and algebraic identities on the object functions evaluated inside
// JSONata and directly.

import (
	"encoding/json"
	"fmt"
	"sort"
	"testing"

	"pgregory.net/rapid"

	"verif/harness/internal/ast"
	"verif/harness/internal/port"
	"verif/harness/internal/val"
)

func init() {
	for _, n := range []string{"TestC14_Grouping", "TestC14_Findings"} {
		registerReplay(n, diffReplay)
	}
	registerReplay("TestC14_ObjectFunctions", func(raw json.RawMessage) string {
		var c objFnCase
		if err := json.Unmarshal(raw, &c); err != nil {
			return "bad case: " + err.Error()
		}
		o, err1 := val.ParseJSON(c.Obj)
		o2, err2 := val.ParseJSON(c.Other)
		if err1 != nil || err2 != nil {
			return "bad case"
		}
		m, _ := objFnCheck(o, o2)
		return m
	})
}

func genGroupItems(t *rapid.T) []val.Value {
	n := rapid.IntRange(0, 7).Draw(t, "nitems")
	items := make([]val.Value, n)
	clean := rapid.IntRange(0, 9).Draw(t, "cleanKeys") < 7 // most documents have only string keys
	for i := range items {
		m := map[string]val.Value{"id": val.N(float64(i))}
		gk := rapid.IntRange(0, 11).Draw(t, "gKind")
		if clean && gk < 2 {
			gk = 2
		}
		switch gk {
		case 0: // absent key
		case 1: // non-string key
			m["g"] = rapid.SampledFrom([]val.Value{val.N(1), val.True, val.A(val.S("a"))}).Draw(t, "badKey")
		default:
			m["g"] = val.S(rapid.SampledFrom([]string{"a", "b", "c", "d", "a", "b", "", "a b"}).Draw(t, "g"))
		}
		m["n"] = val.N(float64(rapid.IntRange(1, 3).Draw(t, "n")))
		if rapid.IntRange(0, 5).Draw(t, "hasV") > 0 {
			m["v"] = rapid.SampledFrom([]val.Value{val.N(1), val.N(2), val.N(10), val.S("s"), val.A(val.N(1), val.N(2)), val.A(val.N(5))}).Draw(t, "v")
		}
		items[i] = val.O(m)
	}
	return items
}

func genGroupKey(t *rapid.T) *ast.Node {
	switch rapid.IntRange(0, 9).Draw(t, "keyKind") {
	case 0, 1, 2, 3:
		return ast.NameN("g")
	case 4:
		return ast.CallN("string", ast.NameN("n"))
	case 5:
		return ast.BinN("&", ast.NameN("g"), ast.StrN("x"))
	case 6:
		return ast.StrN(rapid.SampledFrom([]string{"a", "lit", "1"}).Draw(t, "lit"))
	case 7:
		return ast.NameN("n") // a number: illegal key
	case 8:
		return ast.NameN("zz") // absent
	}
	return ast.N(ast.Cond, ast.BinN(">", ast.NameN("n"), ast.NumN(1)), ast.StrN("big"), ast.StrN("small"))
}

func genGroupValue(t *rapid.T) *ast.Node {
	switch rapid.IntRange(0, 13).Draw(t, "valKind") {
	case 10: // the group's items themselves
		return ast.VarN("")
	case 11: // the first item of the group
		return ast.PredN(ast.VarN(""), ast.NumN(0))
	case 12: // a path through the items
		return ast.PathN(ast.VarN(""), ast.NameN("id"))
	case 13: // items kept as an array
		return ast.ArrN(ast.VarN(""))
	case 0, 1, 2:
		return ast.NameN("v")
	case 3:
		return ast.CallN("count", ast.VarN(""))
	case 4:
		return ast.CallN("sum", ast.NameN("n"))
	case 5:
		return ast.NameN("id")
	case 6:
		return ast.N(ast.Obj, ast.StrN("ids"), ast.NameN("id"), ast.StrN("c"), ast.CallN("count", ast.NameN("n")))
	case 7:
		return ast.NameN("zz") // absent value: member omitted
	case 8:
		return ast.ArrN(ast.NameN("id"))
	}
	return ast.CallN("count", ast.NameN("v"))
}

// directGroup computes items{g: <value>} from the data for the plain templates
// (key = member g; value = member v or $count($)): every item lands in exactly
// the group of its key, groups keep input order.
func directGroup(items []val.Value, value string) (val.Value, bool) {
	groups := map[string][]val.Value{}
	for _, it := range items {
		g, ok := it.O["g"]
		if !ok || g.K != val.Str {
			return val.U, false // error or widening: not judged directly
		}
		groups[g.S] = append(groups[g.S], it)
	}
	out := map[string]val.Value{}
	for k, its := range groups {
		switch value {
		case "count":
			out[k] = val.N(float64(len(its)))
		case "v":
			var seq []val.Value
			for _, it := range its {
				v, ok := it.O["v"]
				if !ok {
					continue
				}
				if v.K == val.Arr {
					seq = append(seq, v.A...)
				} else {
					seq = append(seq, v)
				}
			}
			// a group with exactly one array-valued v: the path returns that array as it is
			if len(its) >= 1 {
				present := 0
				var only val.Value
				for _, it := range its {
					if v, ok := it.O["v"]; ok {
						present++
						only = v
					}
				}
				if present == 1 && only.K == val.Arr {
					out[k] = only
					continue
				}
			}
			switch len(seq) {
			case 0:
			case 1:
				out[k] = seq[0]
			default:
				out[k] = val.A(seq...)
			}
		}
	}
	return val.O(out), true
}

// TestC14_Grouping: seq{k: v, …} against the reference and the direct partition.
func TestC14_Grouping(t *testing.T) {
	rec := begin(t, "C14", "rapid: groupings seq{k: v, ...} with 1..3 pairs; key expressions mapping items onto 1..4 distinct strings (member, $string(n), g & \"x\", conditional, literal) with collisions across pairs, absent keys and non-string keys; value expressions that are members, $count($), $sum(n), nested constructors, arrays, absent; seq = path over an array of objects, a single object (predicate), or the context; plain object constructors; oracle = reference evaluator plus, for items{g: v} and items{g: $count($)}, a partition computed directly from the data; results compared as unordered objects; non-trivial = >= 2 items sharing a key or >= 2 distinct keys; distinct by program + document")
	defer finish(t, rec)
	rapidRun(t, rec, 30000, 400000, func(rt *rapid.T) {
		items := genGroupItems(rt)
		doc := val.O(map[string]val.Value{"items": val.A(items...)})
		var seq *ast.Node
		seqKind := rapid.IntRange(0, 9).Draw(rt, "seqKind")
		switch {
		case seqKind < 6:
			seq = ast.NameN("items")
		case seqKind < 7:
			seq = ast.PredN(ast.NameN("items"), ast.NumN(0))
		case seqKind < 8:
			seq = ast.PredN(ast.NameN("items"), ast.BinN(">", ast.NameN("n"), ast.NumN(1)))
		case seqKind < 9:
			seq = ast.PathN(ast.VarN("$"), ast.NameN("items"))
		default:
			seq = nil // plain object constructor on the context
		}
		np := rapid.SampledFrom([]int{1, 1, 1, 2, 2, 3}).Draw(rt, "npairs")
		var kv []*ast.Node
		plain := ""
		for i := 0; i < np; i++ {
			kv = append(kv, genGroupKey(rt), genGroupValue(rt))
		}
		if np == 1 && seqKind < 6 && rapid.IntRange(0, 2).Draw(rt, "plainTemplate") == 0 {
			plain = rapid.SampledFrom([]string{"v", "count"}).Draw(rt, "plain")
			kv = []*ast.Node{ast.NameN("g"), ast.NameN("v")}
			if plain == "count" {
				kv[1] = ast.CallN("count", ast.VarN(""))
			}
		}
		var prog *ast.Node
		if seq == nil {
			prog = &ast.Node{K: ast.Obj, C: kv}
			if rapid.Bool().Draw(rt, "underPath") {
				prog = ast.PathN(ast.NameN("items"), prog)
			}
		} else {
			prog = &ast.Node{K: ast.Group, C: append([]*ast.Node{seq}, kv...)}
			// the grouping in parentheses is an operand like any other: grouped,
			// filtered or mapped again
			nkeys := func() *ast.Node { return ast.CallN("count", ast.CallN("keys", ast.VarN(""))) }
			rg := rapid.IntRange(0, 15).Draw(rt, "regroup")
			if rg <= 3 {
				plain = "" // the direct partition describes the inner grouping only
			}
			switch rg {
			case 0:
				prog = &ast.Node{K: ast.Group, C: []*ast.Node{ast.BlockN(prog), ast.StrN("groups"), nkeys(), ast.StrN("types"), ast.CallN("type", ast.VarN(""))}}
			case 1:
				prog = ast.PredN(ast.BlockN(prog), ast.BinN(">=", nkeys(), ast.NumN(1)))
			case 2:
				prog = ast.PathN(ast.BlockN(prog), ast.N(ast.Obj, ast.StrN("n"), nkeys()))
			case 3:
				prog = &ast.Node{K: ast.Group, C: []*ast.Node{ast.BlockN(ast.BlockN(prog)), ast.CallN("string", nkeys()), ast.BoolN(true)}}
			}
		}
		c := mkDiff(prog, doc, true)
		p, r, m, skip := diffRun(c)
		if skip {
			rec.Class("skipped_" + r.Why)
			return
		}
		// widening: an absent key may be ErrIllegalKey (this port) or skip the
		// item (newer JSONata); the reference models the port, so a library
		// that skipped the item would be reported here — accepted by design
		// because the port's behaviour is the one the repository's tests pin.
		if m == "" && plain != "" && len(items) > 0 {
			if want, ok := directGroup(items, plain); ok {
				if !(p.Kind == port.KValue && val.Equal(p.Val, want)) {
					m = fmt.Sprintf("partition computed from the data is %s, the library gives %s", val.Canon(want), p.String())
				}
			}
		}
		nt := r.Trace.Grouped || r.Trace.GroupKeys >= 2
		rec.Case(c.Text+"|"+c.Input, nt, diffSample(c, p))
		rec.Class("outcome_" + p.Kind + "_" + p.Err)
		if plain != "" {
			rec.Class("direct_partition_checked")
		}
		if m != "" && rec.Fail(c, m) {
			rt.Fatalf("%s\n  expr: %s\n  input: %s", m, c.Text, c.Input)
		}
	})
}

// ---- object functions

type objFnCase struct {
	Obj   string `json:"obj"`
	Other string `json:"other"`
}

func genFlatObject(t *rapid.T, label string) val.Value {
	n := rapid.IntRange(0, 5).Draw(t, label+"N")
	m := map[string]val.Value{}
	names := []string{"a", "b", "c", "d", "e", "k y", "é", ""}
	for i := 0; i < n; i++ {
		k := rapid.SampledFrom(names).Draw(t, label+"K")
		m[k] = rapid.SampledFrom([]val.Value{val.N(1), val.N(2), val.S("s"), val.True, val.False, val.N(0), val.S(""), val.A(val.N(1), val.N(2)), val.A(), val.O(map[string]val.Value{"z": val.N(1)}), val.A(val.A(val.N(1)))}).Draw(t, label+"V")
	}
	return val.O(m)
}

func evalOn(expr string, doc val.Value) port.Outcome {
	return port.Run(expr, val.JSON(doc))
}

func multisetEqual(a, b []val.Value) bool {
	if len(a) != len(b) {
		return false
	}
	as, bs := make([]string, len(a)), make([]string, len(b))
	for i := range a {
		as[i], bs[i] = val.Canon(a[i]), val.Canon(b[i])
	}
	sort.Strings(as)
	sort.Strings(bs)
	for i := range as {
		if as[i] != bs[i] {
			return false
		}
	}
	return true
}

func asList(o port.Outcome) ([]val.Value, bool) {
	switch o.Kind {
	case port.KUndefined:
		return nil, true
	case port.KValue:
		if o.Val.K == val.Arr {
			return o.Val.A, true
		}
		return []val.Value{o.Val}, true
	}
	return nil, false
}

// objFnCheck evaluates the identities of the statement on one object (and a
// second one for $merge) and returns the first violated identity.
func objFnCheck(o, o2 val.Value) (string, int) {
	doc := val.O(map[string]val.Value{"o": o, "p": o2, "arr": val.A(o, o2)})
	evals := 0
	run := func(e string) port.Outcome { evals++; return evalOn(e, doc) }
	isTrue := func(e string) string {
		r := run(e)
		if !(r.Kind == port.KValue && r.Val.K == val.Bool && r.Val.B) {
			return fmt.Sprintf("%s is %s (must be true)", e, r.String())
		}
		return ""
	}
	n := len(o.O)
	for _, e := range []string{
		`$merge($spread(o)) = o`,
		`$count($keys(o)) = $count($spread(o))`,
		fmt.Sprintf(`$count($spread(o)) = %d`, n),
		`$merge([o, p]) = $merge([$merge([o, p]), p])`,
		`$merge([o]) = o`,
	} {
		if m := isTrue(e); m != "" {
			return m, evals
		}
	}
	// $keys lists each name exactly once (object, and across an array of objects)
	want := []val.Value{}
	for _, k := range o.Keys() {
		want = append(want, val.S(k))
	}
	got, ok := asList(run(`$keys(o)`))
	if !ok || !multisetEqual(got, want) {
		return fmt.Sprintf("$keys(o) lists %v, the members are %v", got, want), evals
	}
	union := map[string]bool{}
	for k := range o.O {
		union[k] = true
	}
	for k := range o2.O {
		union[k] = true
	}
	wantU := []val.Value{}
	for k := range union {
		wantU = append(wantU, val.S(k))
	}
	gotU, ok := asList(run(`$keys(arr)`))
	if !ok || !multisetEqual(gotU, wantU) {
		return fmt.Sprintf("$keys(arr) lists %v, the distinct member names are %v", gotU, wantU), evals
	}
	// $each and $sift visit every member exactly once
	pairs := []val.Value{}
	for _, k := range o.Keys() {
		pairs = append(pairs, val.O(map[string]val.Value{"k": val.S(k), "v": val.A(o.O[k])}))
	}
	gotE, ok := asList(run(`$each(o, function($v, $k){{"k": $k, "v": [[$v]]}})`))
	if n == 0 {
		if r := run(`$each(o, function($v, $k){$k})`); r.Kind != port.KUndefined {
			return "$each of an empty object is " + r.String(), evals
		}
	} else if !ok || !multisetEqual(normPairs(gotE), normPairs(pairs)) {
		return fmt.Sprintf("$each visited %v, the members are %v", gotE, pairs), evals
	}
	// a callback without a result for some members contributes nothing for them
	// ($each and, through it, $merge of the per-member objects)
	var numKeys []val.Value
	numObj := map[string]val.Value{}
	for _, k := range o.Keys() {
		if o.O[k].K == val.Num {
			numKeys = append(numKeys, val.S(k))
			numObj[k] = o.O[k]
		}
	}
	if gotN, ok := asList(run(`$each(o, function($v, $k){$type($v) = "number" ? $k})`)); !ok || !multisetEqual(gotN, numKeys) {
		return fmt.Sprintf("$each with a callback that has a result for the number members only gives %v, their names are %v", gotN, numKeys), evals
	}
	if len(numKeys) > 0 {
		if r := run(`$merge($each(o, function($v, $k){$type($v) = "number" ? {$k: $v}}))`); !(r.Kind == port.KValue && val.Equal(r.Val, val.O(numObj))) {
			return fmt.Sprintf("$merge of the per-member objects of the number members is %s, want %s", r.String(), val.Canon(val.O(numObj))), evals
		}
	}
	// every member is represented by its function result, whatever that result
	// is (0, "" and false included): results of the scalar members
	var scalars []val.Value
	for _, k := range o.Keys() {
		if v := o.O[k]; v.K == val.Num || v.K == val.Str || v.K == val.Bool {
			scalars = append(scalars, v)
		}
	}
	if len(scalars) > 0 {
		gotS, ok := asList(run(`$each($sift(o, function($v){$type($v) in ["number", "string", "boolean"]}), function($v){$v})`))
		if !ok || !multisetEqual(gotS, scalars) {
			return fmt.Sprintf("$each(o, function($v){$v}) over the scalar members gives %v, their values are %v", gotS, scalars), evals
		}
	}
	if n > 0 {
		r := run(`$sift(o, function($v, $k){true})`)
		if !(r.Kind == port.KValue && val.Equal(r.Val, o)) {
			return "$sift(o, true) is " + r.String() + ", not o", evals
		}
		r = run(`$sift(o, function($v, $k, $obj){$k = "a" and $obj = $$.o})`)
		if a, has := o.O["a"]; has {
			if !(r.Kind == port.KValue && val.Equal(r.Val, val.O(map[string]val.Value{"a": a}))) {
				return `$sift(o, $k = "a") is ` + r.String(), evals
			}
		} else if r.Kind != port.KUndefined {
			return `$sift(o, $k = "a") without such a member is ` + r.String(), evals
		}
	}
	// $spread: one single-member object per member
	gotS, ok := asList(run(`$spread(o)`))
	wantS := []val.Value{}
	for _, k := range o.Keys() {
		wantS = append(wantS, val.O(map[string]val.Value{k: o.O[k]}))
	}
	if !ok || !multisetEqual(gotS, wantS) {
		return fmt.Sprintf("$spread(o) is %v, want one single-member object per member %v", gotS, wantS), evals
	}
	// ... and over an array of objects: the spreads of its items one after the
	// other; an empty object among them contributes nothing
	wantSA := append([]val.Value{}, wantS...)
	for _, k := range o2.Keys() {
		wantSA = append(wantSA, val.O(map[string]val.Value{k: o2.O[k]}))
	}
	for _, e := range []string{`$spread([o, {}, p])`, `$spread([{}, o, p, {}])`, `$spread(arr)`, `$spread([o, p][$count($keys($)) >= 0])`} {
		if gotSA, ok := asList(run(e)); !ok || !multisetEqual(gotSA, wantSA) {
			return fmt.Sprintf("%s is %v, want the single-member objects of o and p: %v", e, gotSA, wantSA), evals
		}
	}
	// $merge: right-biased union
	wantM := map[string]val.Value{}
	for k, v := range o.O {
		wantM[k] = v
	}
	for k, v := range o2.O {
		wantM[k] = v
	}
	if r := run(`$merge([o, p])`); !(r.Kind == port.KValue && val.Equal(r.Val, val.O(wantM))) {
		return fmt.Sprintf("$merge([o, p]) is %s, the right-biased union is %s", r.String(), val.Canon(val.O(wantM))), evals
	}
	// ... a function of its argument only: the objects merged are what they were
	// afterwards, so merging in the other order (after a first merge, in the
	// same evaluation) is the left-biased union and o is still o
	wantR := map[string]val.Value{}
	for k, v := range o2.O {
		wantR[k] = v
	}
	for k, v := range o.O {
		wantR[k] = v
	}
	if r := run(`($x := $merge([o, p]); $merge([p, o]))`); !(r.Kind == port.KValue && val.Equal(r.Val, val.O(wantR))) {
		return fmt.Sprintf("$merge([p, o]) after $merge([o, p]) is %s, the union with o winning is %s", r.String(), val.Canon(val.O(wantR))), evals
	}
	if r := run(`($x := $merge(arr); $y := $merge([$x, p, o]); [o, $x, $merge([$x])])`); !(r.Kind == port.KValue && val.Equal(r.Val, val.A(o, val.O(wantM), val.O(wantM)))) {
		return fmt.Sprintf("[o, $x, $merge([$x])] after $x := $merge(arr) and a further merge starting with $x is %s, want [o, union, union] with union %s", r.String(), val.Canon(val.O(wantM))), evals
	}
	if r := run(`($s := $spread(o); $x := $merge($append($s, p)); $merge($s))`); n > 0 && !(r.Kind == port.KValue && val.Equal(r.Val, o)) {
		return fmt.Sprintf("$merge($spread(o)) after merging the same spread with p appended is %s, want o", r.String()), evals
	}
	// $lookup(o, k) equals the field selection of k on o whenever such a member exists
	for _, k := range o.Keys() {
		e := fmt.Sprintf("$lookup(o, %s) = o.%s", ast.QuoteString(k, false), "`"+k+"`")
		v := o.O[k]
		if v.K == val.Arr && len(v.A) == 0 {
			continue // an empty array is "no value" as a path result
		}
		if m := isTrue(e); m != "" {
			return m, evals
		}
	}
	// ... and over an array of objects: the selections from the objects that have
	// the member, normalised like any path result (compared through a wrapper
	// array so that 'no value', one value and several values stay apart)
	for k := range union {
		if k == "" {
			continue
		}
		e := fmt.Sprintf(`{"v": $lookup(arr, %s)} = {"v": arr.%s}`, ast.QuoteString(k, false), "`"+k+"`")
		skip := false
		for _, x := range []val.Value{o, o2} {
			if v, ok := x.O[k]; ok && v.K == val.Arr {
				skip = true // array-valued members: flattening rules of paths, C01's subject
			}
		}
		if skip {
			continue
		}
		if m := isTrue(e); m != "" {
			return m, evals
		}
	}
	return "", evals
}

func normPairs(ps []val.Value) []val.Value {
	// {"k":…, "v":[[v]]} -> {"k":…, "v":[v]} after the constructor's one-level flattening
	out := make([]val.Value, len(ps))
	for i, p := range ps {
		out[i] = p
		if p.K == val.Obj {
			if v, ok := p.O["v"]; ok && v.K == val.Arr && len(v.A) == 1 && v.A[0].K == val.Arr && len(v.A[0].A) == 1 {
				out[i] = val.O(map[string]val.Value{"k": p.O["k"], "v": v.A[0]})
			}
		}
	}
	return out
}

// TestC14_ObjectFunctions: identities over generated null-free objects.
func TestC14_ObjectFunctions(t *testing.T) {
	rec := begin(t, "C14", "rapid: null-free objects of 0..5 members (names incl. a space and a non-ASCII letter; values numbers, strings, booleans, arrays, empty arrays, nested arrays, objects) and pairs of them; identities $merge($spread(o)) = o, $count($keys(o)) = $count($spread(o)) = number of members, $keys lists each name once (also across an array of objects), $each/$sift visit every member exactly once with (value, key, object), $spread yields one single-member object per member, $merge is the right-biased union, $lookup(o,k) = o.k for present k; all compared as unordered objects / multisets; non-trivial = object with >= 2 members; distinct by the two objects")
	defer finish(t, rec)
	rapidRun(t, rec, 4000, 60000, func(rt *rapid.T) {
		o := genFlatObject(rt, "o")
		o2 := genFlatObject(rt, "p")
		m, evals := objFnCheck(o, o2)
		rec.Eval(evals - 1)
		c := objFnCase{Obj: val.JSON(o), Other: val.JSON(o2)}
		rec.Case(c.Obj+"|"+c.Other, len(o.O) >= 2, func() interface{} { return c })
		if m != "" && rec.Fail(c, m) {
			rt.Fatalf("%s\n  o = %s\n  p = %s", m, c.Obj, c.Other)
		}
	})
}
