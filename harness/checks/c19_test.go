package checks

// C19 — $fromMillis renders the right calendar fields and $toMillis inverts it.
// Oracle: an independent proleptic-Gregorian implementation (days-from-civil /
// civil-from-days, weekday, day of year, ISO-8601 week, 12-hour clock, English
// names), itself cross-checked against Go's time package in a self-test; the
// inverse laws; the error clause; and the clock clause bracketed by time.Now().

import (
	"encoding/json"
	"fmt"
	"strings"
	"testing"
	"time"

	jsonata "github.com/blues/jsonata-go"
	"pgregory.net/rapid"

	"verif/harness/internal/port"
	"verif/harness/internal/stats"
	"verif/harness/internal/val"
)

// ---- independent calendar

type civil struct {
	Y, M, D      int
	DOY          int // 1..366
	WD           int // 0 = Sunday
	ISOWeek      int
	H, Mi, S, Ms int
}

func floorDiv(a, b int64) int64 {
	q := a / b
	if (a%b != 0) && ((a < 0) != (b < 0)) {
		q--
	}
	return q
}

func daysFromCivil(y, m, d int) int64 {
	yy := int64(y)
	if m <= 2 {
		yy--
	}
	era := floorDiv(yy, 400)
	yoe := yy - era*400
	mp := int64(m + 9)
	if m > 2 {
		mp = int64(m - 3)
	}
	doy := (153*mp+2)/5 + int64(d) - 1
	doe := yoe*365 + yoe/4 - yoe/100 + doy
	return era*146097 + doe - 719468
}

func civilFromDays(z int64) (y, m, d int) {
	z += 719468
	era := floorDiv(z, 146097)
	doe := z - era*146097
	yoe := (doe - doe/1460 + doe/36524 - doe/146096) / 365
	yy := yoe + era*400
	doy := doe - (365*yoe + yoe/4 - yoe/100)
	mp := (5*doy + 2) / 153
	d = int(doy - (153*mp+2)/5 + 1)
	if mp < 10 {
		m = int(mp + 3)
	} else {
		m = int(mp - 9)
	}
	if m <= 2 {
		yy++
	}
	return int(yy), m, d
}

func isLeap(y int) bool { return y%4 == 0 && (y%100 != 0 || y%400 == 0) }

func weeksInISOYear(y int) int {
	// a year has 53 ISO weeks iff 1 January is a Thursday, or it is a leap year and 1 January is a Wednesday
	jan1 := int(((daysFromCivil(y, 1, 1)+4)%7 + 7) % 7) // 0 = Sunday
	if jan1 == 4 || (isLeap(y) && jan1 == 3) {
		return 53
	}
	return 52
}

// civilAt computes the fields of the instant ms (milliseconds after the epoch)
// in the fixed offset offMin minutes.
func civilAt(ms int64, offMin int) civil {
	local := ms + int64(offMin)*60000
	days := floorDiv(local, 86400000)
	rem := local - days*86400000
	var c civil
	c.Y, c.M, c.D = civilFromDays(days)
	c.DOY = int(days-daysFromCivil(c.Y, 1, 1)) + 1
	c.WD = int(((days+4)%7 + 7) % 7)
	isoWD := c.WD
	if isoWD == 0 {
		isoWD = 7
	}
	w := (c.DOY - isoWD + 10) / 7
	switch {
	case w < 1:
		w = weeksInISOYear(c.Y - 1)
	case w > weeksInISOYear(c.Y):
		w = 1
	}
	c.ISOWeek = w
	c.H = int(rem / 3600000)
	c.Mi = int(rem / 60000 % 60)
	c.S = int(rem / 1000 % 60)
	c.Ms = int(rem % 1000)
	return c
}

var monthNames = []string{"", "January", "February", "March", "April", "May", "June", "July", "August", "September", "October", "November", "December"}
var dayNames = []string{"Sunday", "Monday", "Tuesday", "Wednesday", "Thursday", "Friday", "Saturday"}

func ordinal(n int) string {
	suf := "th"
	if n%100 < 11 || n%100 > 13 {
		switch n % 10 {
		case 1:
			suf = "st"
		case 2:
			suf = "nd"
		case 3:
			suf = "rd"
		}
	}
	return fmt.Sprintf("%d%s", n, suf)
}

func offsetString(offMin int, sep string) string {
	sign := "+"
	if offMin < 0 {
		sign = "-"
		offMin = -offMin
	}
	return fmt.Sprintf("%s%02d%s%02d", sign, offMin/60, sep, offMin%60)
}

const c19SweepPicture = "[Y0001]|[M01]|[D01]|[d]|[FNn]|[MNn]|[W]|[H01]|[h]|[P]|[m]|[s]|[f001]|[Z]|[z]|[Y]|[M]|[D]|[H]|[D1o]|[MN,*-3]|[Fn,*-3]|[Z0101]|[Z01:01t]|[Y01]|[d001]|[PN]|[h01]|[d1o]|[Mn]|[FN]|[m1]|[s1]|[W01]|[PNn]|[Pn]|[PNn,*-1]|[MNn,*-3]|[FNn,3-3]|[z01:01t]|[z0101t]|[z01:01]|[d01]|[Z0]|[Z00]|[z0]|[M1]|[D1]|[H1]|[m01]|[s01]"

// expectedSweep renders the sweep picture from the independent calendar.
func expectedSweep(ms int64, offMin int) []string {
	c := civilAt(ms, offMin)
	h12 := c.H % 12
	if h12 == 0 {
		h12 = 12
	}
	p := "am"
	if c.H >= 12 {
		p = "pm"
	}
	zt := offsetString(offMin, ":")
	if offMin == 0 {
		zt = "Z"
	}
	return []string{
		fmt.Sprintf("%04d", c.Y), fmt.Sprintf("%02d", c.M), fmt.Sprintf("%02d", c.D), fmt.Sprint(c.DOY), dayNames[c.WD], monthNames[c.M],
		fmt.Sprint(c.ISOWeek), fmt.Sprintf("%02d", c.H), fmt.Sprint(h12), p, fmt.Sprintf("%02d", c.Mi), fmt.Sprintf("%02d", c.S), fmt.Sprintf("%03d", c.Ms),
		offsetString(offMin, ":"), "GMT" + offsetString(offMin, ":"), fmt.Sprint(c.Y), fmt.Sprint(c.M), fmt.Sprint(c.D), fmt.Sprint(c.H), ordinal(c.D),
		strings.ToUpper(monthNames[c.M][:3]), strings.ToLower(dayNames[c.WD][:3]), offsetString(offMin, ""), zt, fmt.Sprintf("%02d", c.Y%100), fmt.Sprintf("%03d", c.DOY),
		strings.ToUpper(p), fmt.Sprintf("%02d", h12), ordinal(c.DOY), strings.ToLower(monthNames[c.M]), strings.ToUpper(dayNames[c.WD]), fmt.Sprint(c.Mi), fmt.Sprint(c.S), fmt.Sprintf("%02d", c.ISOWeek),
		strings.ToUpper(p[:1]) + p[1:], p, strings.ToUpper(p[:1]), monthNames[c.M][:3], dayNames[c.WD][:3],
		gmtT(offMin, ":"), gmtT(offMin, ""), "GMT" + offsetString(offMin, ":"),
		fmt.Sprintf("%02d", c.DOY), shortOffset(offMin, 1), shortOffset(offMin, 2), "GMT" + shortOffset(offMin, 1),
		fmt.Sprint(c.M), fmt.Sprint(c.D), fmt.Sprint(c.H), fmt.Sprintf("%02d", c.Mi), fmt.Sprintf("%02d", c.S),
	}
}

// gmtT is the [z] component with the traditional modifier: a bare "Z" at
// offset zero, the prefixed offset otherwise.
func gmtT(offMin int, sep string) string {
	if offMin == 0 {
		return "Z"
	}
	return "GMT" + offsetString(offMin, sep)
}

// shortOffset is the offset in the short layouts [Z0] / [Z00]: sign, hours in
// at least width digits, and the minutes only when they are not zero.
func shortOffset(offMin, width int) string {
	sign, a := "+", offMin
	if a < 0 {
		sign, a = "-", -a
	}
	s := fmt.Sprintf("%s%0*d", sign, width, a/60)
	if a%60 != 0 {
		s += fmt.Sprintf(":%02d", a%60)
	}
	return s
}

func expectedDefault(ms int64, offMin int) string {
	c := civilAt(ms, offMin)
	z := offsetString(offMin, ":")
	if offMin == 0 {
		z = "Z"
	}
	return fmt.Sprintf("%d-%02d-%02dT%02d:%02d:%02d.%03d%s", c.Y, c.M, c.D, c.H, c.Mi, c.S, c.Ms, z)
}

type c19Case struct {
	Ms     int64  `json:"ms"`
	OffMin int    `json:"offset_minutes"`
	Pic    string `json:"picture,omitempty"` // round-trip picture ("" = sweep + default picture)
}

var c19Exprs struct {
	sweep, def, defNoTz, inv, invPic *jsonata.Expr
}

func c19Init() {
	if c19Exprs.sweep != nil {
		return
	}
	mk := func(s string) *jsonata.Expr {
		e, o := port.Compile(s)
		if o != nil {
			panic("C19 expression does not compile: " + s + ": " + o.String())
		}
		return e
	}
	b, _ := json.Marshal(c19SweepPicture)
	c19Exprs.sweep = mk("$fromMillis(ms, " + string(b) + ", tz)")
	c19Exprs.def = mk("$fromMillis(ms, (), tz)")
	c19Exprs.defNoTz = mk("$fromMillis(ms)")
	c19Exprs.inv = mk("$toMillis($fromMillis(ms, (), tz))")
	c19Exprs.invPic = mk("$toMillis($fromMillis(ms, pic, tz), pic)")
}

func tzArg(offMin int) string { return offsetString(offMin, "") }

func c19Run(c c19Case) string {
	c19Init()
	in := func() map[string]interface{} {
		return map[string]interface{}{"ms": float64(c.Ms), "tz": tzArg(c.OffMin), "pic": c.Pic}
	}
	str := func(e *jsonata.Expr) (string, string) {
		o := port.Eval(e, in())
		if o.Kind != port.KValue || o.Val.K != val.Str {
			return "", o.String()
		}
		return o.Val.S, ""
	}
	if c.Pic != "" {
		o := port.Eval(c19Exprs.invPic, in())
		if !(o.Kind == port.KValue && o.Val.K == val.Num && int64(o.Val.N) == c.Ms) {
			s, _ := str(mustCompileC19("$fromMillis(ms, pic, tz)"))
			return fmt.Sprintf("$toMillis($fromMillis(%d, %q, %q), same picture) = %s (rendered text %q)", c.Ms, c.Pic, tzArg(c.OffMin), o.String(), s)
		}
		return ""
	}
	got, bad := str(c19Exprs.sweep)
	if bad != "" {
		return fmt.Sprintf("$fromMillis(%d, sweep picture, %q) gives %s", c.Ms, tzArg(c.OffMin), bad)
	}
	want := expectedSweep(c.Ms, c.OffMin)
	parts := strings.Split(got, "|")
	markers := strings.Split(c19SweepPicture, "|")
	if len(parts) != len(want) {
		return fmt.Sprintf("sweep picture rendered %d fields, want %d: %q", len(parts), len(want), got)
	}
	for i := range want {
		if parts[i] != want[i] {
			return fmt.Sprintf("$fromMillis(%d, %q, %q) = %q, the calendar gives %q (instant %s)", c.Ms, markers[i], tzArg(c.OffMin), parts[i], want[i], expectedDefault(c.Ms, c.OffMin))
		}
	}
	d, bad := str(c19Exprs.def)
	if bad != "" || d != expectedDefault(c.Ms, c.OffMin) {
		return fmt.Sprintf("$fromMillis(%d, (), %q) = %q %s, want %q", c.Ms, tzArg(c.OffMin), d, bad, expectedDefault(c.Ms, c.OffMin))
	}
	if c.OffMin == 0 {
		if d2, bad := str(c19Exprs.defNoTz); bad != "" || d2 != d {
			return fmt.Sprintf("$fromMillis(%d) = %q %s, want %q (UTC by default)", c.Ms, d2, bad, d)
		}
	}
	o := port.Eval(c19Exprs.inv, in())
	if !(o.Kind == port.KValue && o.Val.K == val.Num && int64(o.Val.N) == c.Ms) {
		return fmt.Sprintf("$toMillis($fromMillis(%d, (), %q)) = %s", c.Ms, tzArg(c.OffMin), o.String())
	}
	return ""
}

var c19Cache = map[string]*jsonata.Expr{}

func mustCompileC19(s string) *jsonata.Expr {
	if e, ok := c19Cache[s]; ok {
		return e
	}
	e, o := port.Compile(s)
	if o != nil {
		panic(o.String())
	}
	c19Cache[s] = e
	return e
}

func init() {
	replay := func(raw json.RawMessage) string {
		var c c19Case
		if err := json.Unmarshal(raw, &c); err != nil {
			return "bad case: " + err.Error()
		}
		return c19Run(c)
	}
	for _, n := range []string{"TestC19_DaySweep", "TestC19_Random", "TestC19_Findings"} {
		registerReplay(n, replay)
	}
	registerReplay("TestC19_Errors", func(raw json.RawMessage) string {
		var c expectCase
		if err := json.Unmarshal(raw, &c); err != nil {
			return "bad case: " + err.Error()
		}
		return runExpect(c)
	})
}

// TestC19_OracleSelfTest cross-checks the independent calendar against Go's
// time package: two independent sources must agree before the port is judged.
func TestC19_OracleSelfTest(t *testing.T) {
	rec := begin(t, "C19", "self-test of the oracle: the independent civil-calendar implementation against Go's time package on every 97th day of 1000..9999 and a grid of offsets")
	defer finish(t, rec)
	n := 0
	for day := daysFromCivil(1000, 1, 1); day <= daysFromCivil(9999, 12, 31); day += 97 {
		for _, off := range []int{0, 330, -30, -840, 840} {
			ms := day*86400000 + int64((day*7919)%86400000)
			if ms < day*86400000 {
				ms = day * 86400000
			}
			c := civilAt(ms, off)
			tt := time.UnixMilli(ms).In(time.FixedZone("x", off*60))
			_, w := tt.ISOWeek()
			if c.Y != tt.Year() || c.M != int(tt.Month()) || c.D != tt.Day() || c.DOY != tt.YearDay() || c.WD != int(tt.Weekday()) || c.ISOWeek != w || c.H != tt.Hour() || c.Mi != tt.Minute() || c.S != tt.Second() || c.Ms != tt.Nanosecond()/1000000 {
				rec.Fatal(fmt.Sprintf("the two calendar implementations disagree at ms=%d offset=%d: %+v vs %v", ms, off, c, tt))
				t.Fatalf("oracle self-test failed at %d", ms)
			}
			n++
		}
	}
	rec.Eval(n)
	rec.Case("selftest-a", true, func() interface{} { return "calendar oracle agrees with time package" })
	rec.Case("selftest-b", true, nil)
	rec.Exhaustive("oracle_self_test_points", n)
}

// TestC19_DaySweep: every day (quick: every 7th) from 1000-01-01 to 9999-12-31.
func TestC19_DaySweep(t *testing.T) {
	rec := begin(t, "C19", "sweep: every day (quick tier: every 7th day) from 1000-01-01 to 9999-12-31 at a time of day and an offset (-1400..+1400 in 15-minute steps) derived from the day number, plus all 24 hours and boundary milliseconds on every 97th day; 51 markers per instant ([d01] [Z0] [Z00] [z0] [M1] [D1] [H1] [m01] [s01][Y0001] [M01] [D01] [d] [FNn] [MNn] [W] [H01] [h] [P] [m] [s] [f001] [Z] [z] [Y] [M] [D] [H] [D1o] [MN,*-3] [Fn,*-3] [Z0101] [Z01:01t] [Y01] [d001] [PN] [h01] [d1o] [Mn] [FN] [m1] [s1] [W01] [PNn] [Pn] [PNn,*-1] [MNn,*-3] [FNn,3-3] [z01:01t] [z0101t] [z01:01]), the default picture, and $toMillis($fromMillis(ms, (), tz)) = ms; oracle = independent proleptic-Gregorian calendar; every instant is non-trivial; distinct by (instant, offset)")
	defer finish(t, rec)
	step := int64(stats.Scale(7, 1))
	shard, nshards := stats.Shard()
	first, last := daysFromCivil(1000, 1, 1), daysFromCivil(9999, 12, 31)
	n := 0
	emit := func(c c19Case) bool {
		m := c19Run(c)
		n++
		rec.Case(fmt.Sprintf("%d|%d", c.Ms, c.OffMin), true, func() interface{} {
			return map[string]interface{}{"ms": c.Ms, "offset_minutes": c.OffMin, "instant": expectedDefault(c.Ms, c.OffMin)}
		})
		if m != "" && rec.FailNow(c, m) >= 8 {
			return false
		}
		return true
	}
	for day := first + int64(shard)*step; day <= last; day += step * int64(nshards) {
		h := uint64(day) * 0x9E3779B97F4A7C15
		tod := int64(h % 86400000)
		off := (int(h>>40)%113 - 56) * 15 // -840..+840 minutes
		if !emit(c19Case{Ms: day*86400000 + tod, OffMin: off}) {
			return
		}
		if (day-first)%97 == 0 {
			for hr := int64(0); hr < 24; hr++ {
				if !emit(c19Case{Ms: day*86400000 + hr*3600000, OffMin: 0}) {
					return
				}
			}
			for _, b := range []int64{0, 999, 3599999, 86399999, 43200000, 43199999} {
				if !emit(c19Case{Ms: day*86400000 + b, OffMin: []int{0, -30, 345, -840, 840}[int(b)%5]}) {
					return
				}
			}
		}
	}
	rec.Exhaustive("days_swept", n)
	if step == 1 && nshards == 1 {
		rec.AllExhaustive()
	}
	rec.Note("day_step", step)
}

var c19Seps = []string{"-", ":", "T", " ", "/", ""}

// genRoundTripPicture builds a picture from [Y0001] [M01] [D01] [H01] [m01]
// [s01] [f001] [Z01:01] with safe literal separators; it reports which instants
// it can represent.
func genRoundTripPicture(t *rapid.T) (pic string, hasTime, hasFrac, hasZone bool) {
	sep := func(label string) string {
		return rapid.SampledFrom([]string{"-", ":", "T", " ", "/"}).Draw(t, label)
	}
	pic = "[Y0001]" + sep("s1") + "[M01]" + sep("s2") + "[D01]"
	if rapid.IntRange(0, 3).Draw(t, "withTime") > 0 {
		hasTime = true
		pic += sep("s3") + "[H01]" + sep("s4") + "[m01]" + sep("s5") + "[s01]"
		if rapid.Bool().Draw(t, "withFrac") {
			hasFrac = true
			pic += ".[f001]"
		}
		if rapid.Bool().Draw(t, "withZone") {
			hasZone = true
			pic += rapid.SampledFrom([]string{"", " "}).Draw(t, "zsep") + "[Z01:01]"
		}
	}
	return
}

// TestC19_Random: random instants, offsets and round-trip pictures.
func TestC19_Random(t *testing.T) {
	rec := begin(t, "C19", "rapid: random instants in 1000..9999 with offsets -1400..+1400 in 15-minute steps through the sweep markers, the default picture and the inverse law; and the inverse law through pictures built from [Y0001] [M01] [D01] [H01] [m01] [s01] [f001] [Z01:01] with literal separators (- : T space /; [f001] only directly after '.'), restricted to the instants the picture can represent (whole seconds without [f001], UTC when the picture has no [Z], UTC midnights for date-only pictures); non-trivial = every case; distinct by case")
	defer finish(t, rec)
	lo, hi := daysFromCivil(1000, 1, 1)*86400000, daysFromCivil(9999, 12, 31)*86400000+86399999
	rapidRun(t, rec, 60000, 800000, func(rt *rapid.T) {
		var ms int64
		switch rapid.IntRange(0, 5).Draw(rt, "instantKind") {
		case 0: // around the epoch and modern dates
			ms = rapid.Int64Range(-2000000000000, 4000000000000).Draw(rt, "modern")
		case 1: // year boundaries
			y := rapid.IntRange(1000, 9999).Draw(rt, "year")
			ms = daysFromCivil(y, 1, 1)*86400000 + rapid.Int64Range(-3*86400000, 3*86400000).Draw(rt, "delta")
		case 2: // leap days
			y := rapid.IntRange(250, 2499).Draw(rt, "leap") * 4
			ms = daysFromCivil(y, 2, 28)*86400000 + rapid.Int64Range(0, 3*86400000).Draw(rt, "delta")
		default:
			ms = rapid.Int64Range(lo, hi).Draw(rt, "any")
		}
		if ms < lo+86400000 {
			ms = lo + 86400000
		}
		if ms > hi-86400000 {
			ms = hi - 86400000
		}
		c := c19Case{Ms: ms, OffMin: rapid.IntRange(-56, 56).Draw(rt, "off15") * 15}
		if rapid.IntRange(0, 2).Draw(rt, "roundTripPicture") == 0 {
			pic, hasTime, hasFrac, hasZone := genRoundTripPicture(rt)
			c.Pic = pic
			if !hasZone {
				c.OffMin = 0
			}
			switch {
			case !hasTime:
				c.Ms = floorDiv(c.Ms, 86400000) * 86400000
			case !hasFrac:
				c.Ms = floorDiv(c.Ms, 1000) * 1000
			}
			rec.Class("round_trip_picture")
		}
		m := c19Run(c)
		rec.Case(string(mustJSON(c)), true, func() interface{} { return c })
		if m != "" && rec.Fail(c, m) {
			rt.Fatalf("%s", m)
		}
	})
}

// TestC19_Errors: text that does not parse, invalid pictures and invalid time
// zones are errors; the clock clause.
func TestC19_Errors(t *testing.T) {
	rec := begin(t, "C19", "fixed list: malformed pictures ([, [Y, ], unknown component, empty, no markers, bad width modifiers), malformed offsets, text that does not parse — all must be errors; plus the clock clause: within one evaluation every $now() and $millis() denotes one instant lying between the wall-clock times at which Eval was entered and left (200 evaluations); non-trivial = every case")
	defer finish(t, rec)
	cases := []expectCase{}
	for _, p := range []string{"[", "[Y", "]", "[Q]", "", "no markers", "[Y,a]", "[Y,3-2]", "[Y,]", "[[Y]", "[Y]]", "[]"} {
		b, _ := json.Marshal(p)
		if p == "" {
			continue
		}
		cases = append(cases, expectCase{Text: "$fromMillis(0, " + string(b) + ")", WantPrefix: "error"})
		cases = append(cases, expectCase{Text: "$toMillis(\"1970\", " + string(b) + ")", WantPrefix: "error"})
	}
	for _, z := range []string{"Z", "+1", "+ab00", "5", "+05:30", "0000", "++000", "+00000", "-12"} {
		b, _ := json.Marshal(z)
		cases = append(cases, expectCase{Text: "$fromMillis(0, (), " + string(b) + ")", WantPrefix: "error"})
	}
	for _, s := range []string{"foo", "2017-13-45T00:00:00.000Z", "2017-10-30T16:25:32.935", "12", "", "2017-10-30 16:25"} {
		b, _ := json.Marshal(s)
		want := "error"
		if s == "2017-10-30T16:25:32.935" || s == "12" {
			continue // other default layouts may accept these
		}
		cases = append(cases, expectCase{Text: "$toMillis(" + string(b) + ")", WantPrefix: want})
	}
	cases = append(cases,
		expectCase{Text: `$toMillis("2017-10-30", "[Y0001]-[M01]")`, WantPrefix: "error"},
		expectCase{Text: `$toMillis("1970-01-01T00:00:00.001Z")`, Want: "value 1"},
		expectCase{Text: `$toMillis("1969-12-31T23:59:59.999Z")`, Want: "value -1"},
		expectCase{Text: `$toMillis("1970-01-01T01:00:00.000+01:00")`, Want: "value 0"},
		expectCase{Text: `$fromMillis(0)`, Want: `value "1970-01-01T00:00:00.000Z"`},
	)
	for _, c := range cases {
		c.Input = "{}"
		m := runExpect(c)
		rec.Case(c.Text, true, func() interface{} { return c })
		if m != "" && rec.FailNow(c, c.Text+": "+m) >= 8 {
			return
		}
	}
	// clock clause
	e := mustCompileC19(`[$millis(), ($sum([1..20000]); $millis()), $toMillis($now()), $toMillis($now("[Y0001]-[M01]-[D01]T[H01]:[m01]:[s01].[f001][Z01:01]", "+0530"), "[Y0001]-[M01]-[D01]T[H01]:[m01]:[s01].[f001][Z01:01]")]`)
	for i := 0; i < 200; i++ {
		before := time.Now()
		o := port.Eval(e, nil)
		after := time.Now()
		rec.Eval(1)
		if after.Before(before) {
			continue // the wall clock stepped backwards
		}
		if o.Kind != port.KValue || o.Val.K != val.Arr || len(o.Val.A) != 4 {
			rec.FailNow(expectCase{Text: e.String()}, "clock expression gives "+o.String())
			return
		}
		v := o.Val.A
		b, a := float64(before.UnixMilli()), float64(after.UnixMilli())
		if v[0].N != v[1].N || v[0].N != v[2].N || v[0].N != v[3].N {
			rec.FailNow(expectCase{Text: e.String()}, fmt.Sprintf("$millis()/$now() denote different instants within one evaluation: %s", o.Repr))
			return
		}
		if v[0].N < b || v[0].N > a {
			rec.FailNow(expectCase{Text: e.String()}, fmt.Sprintf("$millis() = %v lies outside [%v, %v], the wall-clock times around Eval", v[0].N, b, a))
			return
		}
		if i > 0 && i%50 == 0 {
			time.Sleep(3 * time.Millisecond)
		}
	}
	rec.Case("clock-clause", true, func() interface{} { return e.String() })
}
