package checks

// C04 — The parse is fixed by JSONata precedence, associativity and
// parentheses. Oracle 1: an independent precedence-climbing reference parser
// over operator chains, driven by a table transcribed from the statement; its
// tree and the AST returned by jparse.Parse are converted to one canonical
// s-expression and compared; all spellings of one chain (minimal, fully
// parenthesised, redundant parentheses, whitespace variants) must give the
// identical canonical tree. Oracle 2 (semantic): minimally and fully
// parenthesised literal programs evaluate to the same outcome. Plus the
// regex/division and keyword clauses.

import (
	"encoding/json"
	"fmt"
	"strings"
	"testing"

	"github.com/blues/jsonata-go/jparse"
	"pgregory.net/rapid"

	"verif/harness/internal/ast"
	"verif/harness/internal/port"
	"verif/harness/internal/stats"
	"verif/harness/internal/val"
)

// ---- the operator table of the statement

type opSpec struct {
	sym  string // printed symbol / kind
	kind string // bin | idx | call | grp | sort | cond | assign
	prec int
}

var c04Ops = []opSpec{
	{".", "bin", 90}, {"[", "idx", 100}, {"(", "call", 100}, {"{", "grp", 80},
	{"*", "bin", 70}, {"/", "bin", 70}, {"%", "bin", 70},
	{"+", "bin", 60}, {"-", "bin", 60}, {"&", "bin", 60},
	{"=", "bin", 50}, {"!=", "bin", 50}, {"<", "bin", 50}, {"<=", "bin", 50}, {">", "bin", 50}, {">=", "bin", 50}, {"in", "bin", 50},
	{"^(", "sort", 50}, {"~>", "bin", 50},
	{"and", "bin", 40}, {"or", "bin", 30},
	{"?", "cond", 20}, {":=", "assign", 10},
}

// a chain: operand0 (op payload)* ; every operand is a distinct variable
type chainOp struct {
	Op int `json:"op"` // index into c04Ops
}

type c04Case struct {
	Ops  []int  `json:"ops"`
	Mode string `json:"mode,omitempty"`
}

// ---- reference tree

type rnode struct {
	kind string // leaf | bin | idx | call | grp | sort | cond | assign
	sym  string
	kids []*rnode
}

type chainParser struct {
	ops     []int
	pos     int // next operator
	nextVar int
}

func (p *chainParser) operand() *rnode {
	v := fmt.Sprintf("$v%d", p.nextVar)
	p.nextVar++
	return &rnode{kind: "leaf", sym: v}
}

// parse is precedence climbing (Pratt): continue while rbp < lbp(next op).
func (p *chainParser) parse(rbp int) *rnode {
	left := p.operand()
	for p.pos < len(p.ops) {
		spec := c04Ops[p.ops[p.pos]]
		if spec.prec <= rbp {
			break
		}
		p.pos++
		switch spec.kind {
		case "bin":
			right := p.parse(spec.prec) // left associative
			left = &rnode{kind: "bin", sym: spec.sym, kids: []*rnode{left, right}}
		case "assign":
			right := p.parse(spec.prec - 1) // right associative
			left = &rnode{kind: "assign", kids: []*rnode{left, right}}
		case "idx", "call", "sort":
			left = &rnode{kind: spec.kind, kids: []*rnode{left, p.operand()}}
		case "grp":
			left = &rnode{kind: "grp", kids: []*rnode{left, p.operand(), p.operand()}}
		case "cond":
			then := p.operand()
			els := p.parse(0) // the else-branch extends as far as possible
			left = &rnode{kind: "cond", kids: []*rnode{left, then, els}}
		}
	}
	return left
}

func refParse(ops []int) *rnode {
	p := &chainParser{ops: ops}
	return p.parse(0)
}

// staticError: what the statement implies must be rejected at compile time.
func staticError(n *rnode) bool {
	bad := false
	var walk func(n *rnode)
	walk = func(n *rnode) {
		switch n.kind {
		case "assign":
			if n.kids[0].kind != "leaf" {
				bad = true // := needs a variable on its left
			}
		case "idx", "grp":
			if n.kids[0].kind == "grp" {
				bad = true // one grouping per step, no predicate after a grouping
			}
		}
		for _, k := range n.kids {
			walk(k)
		}
	}
	walk(n)
	return bad
}

// canonical s-expression of the reference tree; dots are flattened (the
// associativity of '.' is not observable in the exported AST)
func (n *rnode) canon() string {
	switch n.kind {
	case "leaf":
		return n.sym
	case "bin":
		if n.sym == "." {
			var steps []string
			var flat func(x *rnode)
			flat = func(x *rnode) {
				if x.kind == "bin" && x.sym == "." {
					flat(x.kids[0])
					flat(x.kids[1])
					return
				}
				steps = append(steps, x.canon())
			}
			flat(n)
			return "(path " + strings.Join(steps, " ") + ")"
		}
		return "(" + n.sym + " " + n.kids[0].canon() + " " + n.kids[1].canon() + ")"
	case "assign":
		return "(:= " + n.kids[0].canon() + " " + n.kids[1].canon() + ")"
	case "idx":
		return "(pred " + n.kids[0].canon() + " " + n.kids[1].canon() + ")"
	case "call":
		return "(call " + n.kids[0].canon() + " " + n.kids[1].canon() + ")"
	case "sort":
		return "(sort " + n.kids[0].canon() + " " + n.kids[1].canon() + ")"
	case "grp":
		return "(group " + n.kids[0].canon() + " " + n.kids[1].canon() + " " + n.kids[2].canon() + ")"
	case "cond":
		return "(? " + n.kids[0].canon() + " " + n.kids[1].canon() + " " + n.kids[2].canon() + ")"
	}
	return "?"
}

// ---- printing a chain

type spelling struct {
	full      bool // parenthesise every non-leaf node of the reference tree
	redundant int  // extra parentheses around the n-th non-leaf nodes (bit mask)
	ws        int  // 0 = single spaces, 1 = tight, 2 = newlines/tabs
}

func (n *rnode) print(sp spelling, counter *int, top bool) string {
	sep := " "
	switch sp.ws {
	case 1:
		sep = ""
	case 2:
		sep = " \n\t"
	}
	if n.kind == "leaf" {
		return n.sym
	}
	*counter++
	me := *counter
	var s string
	k := func(i int) string { return n.kids[i].print(sp, counter, false) }
	switch n.kind {
	case "bin":
		op := n.sym
		pad := sep
		if (op == "and" || op == "or" || op == "in") && pad == "" {
			// tight spelling of a keyword operator: a space only where the
			// word would otherwise run into its operand - none next to a
			// parenthesis or bracket: (a)and(b), a[0]in(c)
			l, r := k(0), k(1)
			lp, rp := " ", " "
			if strings.HasSuffix(l, ")") || strings.HasSuffix(l, "]") || strings.HasSuffix(l, "}") {
				lp = ""
			}
			if strings.HasPrefix(r, "(") {
				rp = ""
			}
			s = l + lp + op + rp + r
			break
		}
		if op == "." {
			pad = ""
			if sp.ws == 2 {
				pad = " "
			}
		}
		s = k(0) + pad + op + pad + k(1)
	case "assign":
		s = k(0) + sep + ":=" + sep + k(1)
	case "idx":
		s = k(0) + "[" + sep + k(1) + sep + "]"
	case "call":
		s = k(0) + "(" + sep + k(1) + sep + ")"
	case "sort":
		s = k(0) + "^(" + sep + k(1) + sep + ")"
	case "grp":
		s = k(0) + "{" + sep + k(1) + sep + ":" + sep + k(2) + sep + "}"
	case "cond":
		s = k(0) + sep + "?" + sep + k(1) + sep + ":" + sep + k(2)
	}
	wrap := sp.full && !top
	if sp.redundant&(1<<uint(me%16)) != 0 {
		wrap = true
		if sp.full || me%3 == 0 {
			s = "(" + s + ")" // doubled parentheses
		}
	}
	if wrap {
		s = "(" + s + ")"
	}
	return s
}

func printChain(tree *rnode, sp spelling) string {
	c := 0
	return tree.print(sp, &c, true)
}

// ---- canonical s-expression of the library's AST

func canonNode(n jparse.Node) string {
	switch n := n.(type) {
	case *jparse.VariableNode:
		return "$" + n.Name
	case *jparse.NameNode:
		return "name:" + n.Value
	case *jparse.NumberNode:
		return fmt.Sprintf("num:%g", n.Value)
	case *jparse.StringNode:
		return fmt.Sprintf("str:%q", n.Value)
	case *jparse.BooleanNode:
		return fmt.Sprintf("bool:%v", n.Value)
	case *jparse.NullNode:
		return "null"
	case *jparse.RegexNode:
		return "regex:" + n.Value.String()
	case *jparse.BlockNode:
		if len(n.Exprs) == 1 {
			return canonNode(n.Exprs[0]) // parentheses are not part of the structure
		}
		parts := make([]string, len(n.Exprs))
		for i, e := range n.Exprs {
			parts[i] = canonNode(e)
		}
		return "(block " + strings.Join(parts, " ") + ")"
	case *jparse.PathNode:
		var steps []string
		var flat func(x jparse.Node)
		flat = func(x jparse.Node) {
			// strip parentheses, then splice nested paths
			for {
				b, ok := x.(*jparse.BlockNode)
				if !ok || len(b.Exprs) != 1 {
					break
				}
				x = b.Exprs[0]
			}
			if p, ok := x.(*jparse.PathNode); ok && !p.KeepArrays {
				for _, s := range p.Steps {
					flat(s)
				}
				return
			}
			steps = append(steps, canonNode(x))
		}
		for _, s := range n.Steps {
			flat(s)
		}
		keep := ""
		if n.KeepArrays {
			keep = " keep"
		}
		if len(steps) == 1 && keep == "" {
			return steps[0]
		}
		return "(path " + strings.Join(steps, " ") + keep + ")"
	case *jparse.PredicateNode:
		s := canonNode(n.Expr)
		for _, f := range n.Filters {
			s = "(pred " + s + " " + canonNode(f) + ")" // stacked filters = nested predicates
		}
		return s
	case *jparse.FunctionCallNode:
		parts := []string{canonNode(n.Func)}
		for _, a := range n.Args {
			parts = append(parts, canonNode(a))
		}
		return "(call " + strings.Join(parts, " ") + ")"
	case *jparse.GroupNode:
		parts := []string{canonNode(n.Expr)}
		for _, p := range n.ObjectNode.Pairs {
			parts = append(parts, canonNode(p[0]), canonNode(p[1]))
		}
		return "(group " + strings.Join(parts, " ") + ")"
	case *jparse.SortNode:
		parts := []string{canonNode(n.Expr)}
		for _, t := range n.Terms {
			parts = append(parts, canonNode(t.Expr))
		}
		return "(sort " + strings.Join(parts, " ") + ")"
	case *jparse.ConditionalNode:
		s := "(? " + canonNode(n.If) + " " + canonNode(n.Then)
		if n.Else != nil {
			s += " " + canonNode(n.Else)
		}
		return s + ")"
	case *jparse.AssignmentNode:
		return "(:= $" + n.Name + " " + canonNode(n.Value) + ")"
	case *jparse.NumericOperatorNode:
		return "(" + n.Type.String() + " " + canonNode(n.LHS) + " " + canonNode(n.RHS) + ")"
	case *jparse.ComparisonOperatorNode:
		return "(" + n.Type.String() + " " + canonNode(n.LHS) + " " + canonNode(n.RHS) + ")"
	case *jparse.BooleanOperatorNode:
		return "(" + n.Type.String() + " " + canonNode(n.LHS) + " " + canonNode(n.RHS) + ")"
	case *jparse.StringConcatenationNode:
		return "(& " + canonNode(n.LHS) + " " + canonNode(n.RHS) + ")"
	case *jparse.FunctionApplicationNode:
		return "(~> " + canonNode(n.LHS) + " " + canonNode(n.RHS) + ")"
	case *jparse.NegationNode:
		return "(neg " + canonNode(n.RHS) + ")"
	case *jparse.ArrayNode:
		parts := make([]string, len(n.Items))
		for i, e := range n.Items {
			parts[i] = canonNode(e)
		}
		return "(array " + strings.Join(parts, " ") + ")"
	case *jparse.ObjectNode:
		var parts []string
		for _, p := range n.Pairs {
			parts = append(parts, canonNode(p[0]), canonNode(p[1]))
		}
		return "(object " + strings.Join(parts, " ") + ")"
	case *jparse.LambdaNode:
		return "(lambda " + strings.Join(n.ParamNames, ",") + " " + canonNode(n.Body) + ")"
	case *jparse.RangeNode:
		return "(.. " + canonNode(n.LHS) + " " + canonNode(n.RHS) + ")"
	}
	return fmt.Sprintf("<%T>", n)
}

func parseCanon(text string) (canon string, errType int, panicked string) {
	defer func() {
		if r := recover(); r != nil {
			panicked = fmt.Sprint(r)
		}
	}()
	n, err := jparse.Parse(text)
	if err != nil {
		if pe, ok := err.(*jparse.Error); ok {
			return "", int(pe.Type), ""
		}
		return "", -1, ""
	}
	return canonNode(n), 0, ""
}

// c04Run judges one chain: reference tree vs the library's tree for the
// minimal spelling; all other spellings must give the same canonical tree.
func c04Run(c c04Case) string {
	for _, o := range c.Ops {
		if o < 0 || o >= len(c04Ops) {
			return ""
		}
	}
	tree := refParse(c.Ops)
	want := tree.canon()
	wantErr := staticError(tree)
	minimal := printChain(tree, spelling{})
	got, et, p := parseCanon(minimal)
	if p != "" {
		return fmt.Sprintf("jparse.Parse(%q) panicked: %s", minimal, p)
	}
	if wantErr {
		if et == 0 {
			return fmt.Sprintf("%q must be rejected (its precedence-dictated structure %s has a non-variable on the left of := or a predicate/grouping after a grouping), but it parses as %s", minimal, want, got)
		}
		return ""
	}
	if et != 0 {
		return fmt.Sprintf("%q does not compile (error type %d); the statement's precedence gives %s", minimal, et, want)
	}
	if got != want {
		return fmt.Sprintf("%q parses as %s; the statement's precedence gives %s", minimal, got, want)
	}
	// other spellings of the same chain
	for _, sp := range []spelling{{full: true}, {ws: 1}, {ws: 2}, {redundant: 0x5}, {redundant: 0xA, ws: 2}, {full: true, redundant: 0x3}, {full: true, ws: 1}} {
		text := printChain(tree, sp)
		g, e, p := parseCanon(text)
		if p != "" {
			return fmt.Sprintf("jparse.Parse(%q) panicked: %s", text, p)
		}
		if e != 0 || g != want {
			return fmt.Sprintf("the spelling %q of the chain %q parses as %s (error type %d); expected the same structure %s", text, minimal, g, e, want)
		}
	}
	return ""
}

func init() {
	replay := func(raw json.RawMessage) string {
		var c c04Case
		if err := json.Unmarshal(raw, &c); err != nil {
			return "bad case: " + err.Error()
		}
		if c.Mode == "semantic" {
			return ""
		}
		return c04Run(c)
	}
	registerReplay("TestC04_PairsAndTriples", replay)
	registerReplay("TestC04_RandomChains", replay)
	registerReplay("TestC04_Findings", replay)
	registerReplay("TestC04_ParenthesesOverride", diffReplay)
	registerReplay("TestC04_Semantic", func(raw json.RawMessage) string {
		var c c04Sem
		if err := json.Unmarshal(raw, &c); err != nil {
			return "bad case: " + err.Error()
		}
		return c04SemRun(c)
	})
	registerReplay("TestC04_RegexDivisionKeywords", func(raw json.RawMessage) string {
		var c expectCase
		if err := json.Unmarshal(raw, &c); err != nil {
			return "bad case: " + err.Error()
		}
		return runExpect(c)
	})
}

func opNames(ops []int) string {
	s := make([]string, len(ops))
	for i, o := range ops {
		s[i] = c04Ops[o].sym
	}
	return strings.Join(s, " ")
}

// TestC04_PairsAndTriples: every ordered pair and triple of operators.
func TestC04_PairsAndTriples(t *testing.T) {
	rec := begin(t, "C04", "exhaustive: every chain of one, two and three operators drawn from the complete infix/postfix set (23 operators: . [ ] ( ) { } * / % + - & = != < <= > >= in ^( ) ~> and or ?: := ; 23 + 529 + 12167 chains), operands being distinct variables; each chain in 8 spellings (minimal, fully parenthesised, redundant and doubled parentheses, tight, newline/tab whitespace); oracle = independent precedence-climbing reference parser + canonical tree comparison with jparse.Parse; non-trivial = >= 2 operators; distinct by operator tuple")
	defer finish(t, rec)
	shard, nshards := stats.Shard()
	n := 0
	run := func(ops []int) bool {
		n++
		if n%nshards != shard {
			return true
		}
		c := c04Case{Ops: append([]int{}, ops...)}
		m := c04Run(c)
		rec.Case(opNames(ops), len(ops) >= 2, func() interface{} {
			tr := refParse(c.Ops)
			return map[string]interface{}{"operators": opNames(ops), "text": printChain(tr, spelling{}), "structure": tr.canon(), "rejected": staticError(tr)}
		})
		rec.Eval(7)
		if m != "" && rec.FailNow(c, m) >= 8 {
			return false
		}
		return true
	}
	N := len(c04Ops)
	for a := 0; a < N; a++ {
		if !run([]int{a}) {
			return
		}
		for b := 0; b < N; b++ {
			if !run([]int{a, b}) {
				return
			}
			for c := 0; c < N; c++ {
				if !run([]int{a, b, c}) {
					return
				}
			}
		}
	}
	rec.Exhaustive("operator_chains_le3", n)
	if nshards == 1 {
		rec.AllExhaustive()
	}
}

// TestC04_RandomChains: chains of 4..8 operators.
func TestC04_RandomChains(t *testing.T) {
	rec := begin(t, "C04", "rapid: chains of 4..8 operators from the same set, same spellings and oracle; non-trivial = every case; distinct by operator tuple")
	defer finish(t, rec)
	rapidRun(t, rec, 20000, 150000, func(rt *rapid.T) {
		n := rapid.IntRange(4, 8).Draw(rt, "len")
		ops := make([]int, n)
		for i := range ops {
			ops[i] = rapid.IntRange(0, len(c04Ops)-1).Draw(rt, "op")
		}
		c := c04Case{Ops: ops}
		m := c04Run(c)
		rec.Case(opNames(ops), true, func() interface{} {
			tr := refParse(c.Ops)
			return map[string]interface{}{"operators": opNames(ops), "text": printChain(tr, spelling{}), "structure": tr.canon()}
		})
		if staticError(refParse(ops)) {
			rec.Class("statically_rejected")
		}
		if m != "" && rec.Fail(c, m) {
			rt.Fatalf("%s", m)
		}
	})
}

// ---- oracle 2: semantic neutrality of parentheses

type c04Sem struct {
	Ops      []string `json:"ops"`      // binary operators / "?"
	Operands []string `json:"operands"` // literal spellings
}

var c04SemOps = []string{"*", "/", "%", "+", "-", "&", "=", "!=", "<", "<=", ">", ">=", "and", "or", "?", "in", "~>"}

func semPrec(op string) int {
	for _, s := range c04Ops {
		if s.sym == op {
			return s.prec
		}
	}
	return 0
}

type semNode struct {
	op   string
	kids []*semNode
	leaf string
}

type semParser struct {
	c   c04Sem
	pos int
	opd int
}

func (p *semParser) operand() *semNode {
	n := &semNode{leaf: p.c.Operands[p.opd]}
	p.opd++
	return n
}

func (p *semParser) parse(rbp int) *semNode {
	left := p.operand()
	for p.pos < len(p.c.Ops) {
		op := p.c.Ops[p.pos]
		pr := semPrec(op)
		if pr <= rbp {
			break
		}
		p.pos++
		if op == "?" {
			then := p.operand()
			els := p.parse(0)
			left = &semNode{op: "?", kids: []*semNode{left, then, els}}
			continue
		}
		left = &semNode{op: op, kids: []*semNode{left, p.parse(pr)}}
	}
	return left
}

func (n *semNode) print(full, top bool, quote byte) string {
	if n.op == "" {
		if quote != 0 && strings.HasPrefix(n.leaf, `"`) {
			return string(quote) + strings.Trim(n.leaf, `"`) + string(quote)
		}
		return n.leaf
	}
	var s string
	if n.op == "?" {
		s = n.kids[0].print(full, false, quote) + " ? " + n.kids[1].print(full, false, quote) + " : " + n.kids[2].print(full, false, quote)
	} else {
		s = n.kids[0].print(full, false, quote) + " " + n.op + " " + n.kids[1].print(full, false, quote)
	}
	if full && !top {
		return "(" + s + ")"
	}
	return s
}

func c04SemRun(c c04Sem) string {
	need := 1
	for _, o := range c.Ops {
		need++
		if o == "?" {
			need++
		}
	}
	if len(c.Operands) < need {
		return ""
	}
	p := &semParser{c: c}
	tree := p.parse(0)
	minimal := tree.print(false, true, 0)
	full := tree.print(true, true, 0)
	single := tree.print(false, true, '\'')
	in := `{"a":4,"b":"x","c":[1,2],"and":1,"or":2,"in":3}`
	o1, o2, o3 := port.Run(minimal, in), port.Run(full, in), port.Run(single, in)
	if o1.Kind == port.KPanic || o2.Kind == port.KPanic {
		return ""
	}
	if !port.Same(o1, o2) {
		return fmt.Sprintf("%q evaluates to %s, but with the parentheses the statement's precedence implies, %q, it evaluates to %s", minimal, o1.String(), full, o2.String())
	}
	if !port.Same(o1, o3) {
		return fmt.Sprintf("%q evaluates to %s, but respelled with single quotes, %q, it evaluates to %s", minimal, o1.String(), single, o3.String())
	}
	return ""
}

// TestC04_Semantic: parentheses that restate the precedence are semantically neutral.
func TestC04_Semantic(t *testing.T) {
	rec := begin(t, "C04", "rapid: chains of 2..6 arithmetic, comparison, boolean, concatenation, membership, conditional and ~> operators over literal and name operands (numbers, strings, booleans, names incl. the words and/or/in as field names, function names); the minimally parenthesised program and the program fully parenthesised according to the statement's precedence (and its single-quoted respelling) must evaluate to the same value / no value / error kind; non-trivial = >= 2 operators of different precedence levels; distinct by program text")
	defer finish(t, rec)
	operands := []string{"1", "2", "3", "0", "10", "2.5", `"a"`, `"b"`, `"1"`, `"a\\"`, `"\\"`, `"q\"q"`, `"t\tn"`, "true", "false", "a", "b", "c", "zz", "and", "or", "in", "$sum", "$string", "$count", "null"}
	rapidRun(t, rec, 30000, 300000, func(rt *rapid.T) {
		n := rapid.IntRange(2, 6).Draw(rt, "nops")
		c := c04Sem{}
		levels := map[int]bool{}
		for i := 0; i < n; i++ {
			op := rapid.SampledFrom(c04SemOps).Draw(rt, "op")
			c.Ops = append(c.Ops, op)
			levels[semPrec(op)] = true
		}
		for i := 0; i < 2*n+2; i++ {
			c.Operands = append(c.Operands, rapid.SampledFrom(operands).Draw(rt, "operand"))
		}
		m := c04SemRun(c)
		p := &semParser{c: c}
		text := p.parse(0).print(false, true, 0)
		rec.Case(text, len(levels) >= 2, func() interface{} { return map[string]interface{}{"text": text} })
		rec.Eval(2)
		if m != "" && rec.Fail(c, m) {
			rt.Fatalf("%s", m)
		}
	})
}

// TestC04_ParenthesesOverride: parentheses override the grouping of steps,
// predicates and operators. The generator builds the tree (with explicit
// block nodes where the text has parentheses), the reference evaluator
// evaluates that tree, the library evaluates the printed text.
func TestC04_ParenthesesOverride(t *testing.T) {
	rec := begin(t, "C04", "rapid: name paths of 1..3 steps with 0..2 predicates per step (comparisons, positions, index arrays), with parentheses around any sub-path, predicate head or operand and further predicates / steps / arithmetic applied to the parenthesised part, over a document with arrays at every level; oracle = reference evaluator on the generator's tree (which knows the grouping) vs the library on the printed text; non-trivial = at least one parenthesised sub-expression followed by a predicate or step; distinct by program text")
	defer finish(t, rec)
	doc := val.MustJSON(`{"a":[{"b":[{"c":1,"d":[5,6]},{"c":2,"d":[7]}],"n":1},{"b":[{"c":3,"d":[8,9]},{"c":4,"d":[]}],"n":2}],"x":10,"y":[3,1,2]}`)
	rapidRun(t, rec, 15000, 250000, func(rt *rapid.T) {
		name := func(l string) *ast.Node { return ast.NameN(rapid.SampledFrom([]string{"a", "b", "c", "d", "n", "y"}).Draw(rt, l)) }
		filter := func(l string) *ast.Node {
			switch rapid.IntRange(0, 5).Draw(rt, l) {
			case 0:
				return ast.NumN(float64(rapid.IntRange(-1, 2).Draw(rt, l+"i")))
			case 1:
				return ast.BinN(">", ast.NameN("c"), ast.NumN(float64(rapid.IntRange(0, 3).Draw(rt, l+"t"))))
			case 2:
				return ast.ArrN(ast.NumN(0), ast.NumN(float64(rapid.IntRange(0, 2).Draw(rt, l+"j"))))
			case 3:
				return ast.BinN("=", ast.NameN("n"), ast.NumN(float64(rapid.IntRange(1, 2).Draw(rt, l+"n"))))
			case 4:
				return ast.BinN(">", ast.VarN(""), ast.NumN(float64(rapid.IntRange(0, 8).Draw(rt, l+"v"))))
			}
			return ast.NameN("d")
		}
		parens := 0
		var build func(depth int) *ast.Node
		build = func(depth int) *ast.Node {
			var steps []*ast.Node
			n := rapid.IntRange(1, 3).Draw(rt, "steps")
			for i := 0; i < n; i++ {
				var s *ast.Node = name("step")
				if depth > 0 && rapid.IntRange(0, 3).Draw(rt, "sub") == 0 {
					s = ast.BlockN(build(depth - 1))
					parens++
				}
				for k, nf := 0, rapid.IntRange(0, 2).Draw(rt, "nf"); k < nf; k++ {
					s = ast.PredN(s, filter("f"))
				}
				steps = append(steps, s)
			}
			var p *ast.Node
			if len(steps) == 1 {
				p = steps[0]
			} else {
				p = ast.PathN(steps...)
			}
			if rapid.IntRange(0, 2).Draw(rt, "wrap") == 0 {
				p = ast.BlockN(p)
				parens++
				for k, nf := 0, rapid.IntRange(1, 2).Draw(rt, "nfw"); k < nf; k++ {
					p = ast.PredN(p, filter("fw"))
				}
				if rapid.Bool().Draw(rt, "thenStep") {
					p = ast.PathN(p, name("after"))
				}
			}
			return p
		}
		prog := build(2)
		if rapid.IntRange(0, 3).Draw(rt, "arith") == 0 {
			// (x op y) op z with parentheses on either side
			op1 := rapid.SampledFrom([]string{"-", "/", "%", "+", "*"}).Draw(rt, "op1")
			op2 := rapid.SampledFrom([]string{"-", "/", "%", "+", "*"}).Draw(rt, "op2")
			a, b, c := ast.NameN("x"), ast.NumN(float64(rapid.IntRange(1, 7).Draw(rt, "k1"))), ast.NumN(float64(rapid.IntRange(1, 7).Draw(rt, "k2")))
			if rapid.Bool().Draw(rt, "rightGrouped") {
				prog = ast.BinN(op1, a, ast.BlockN(ast.BinN(op2, b, c)))
			} else {
				prog = ast.BinN(op2, ast.BinN(op1, a, b), c)
			}
			parens++
		}
		if rapid.IntRange(0, 5).Draw(rt, "chainCall") == 0 {
			// v ~> ($mk(k)) applies the function that $mk(k) returns to v;
			// v ~> $mk(k) calls $mk(v, k): the parentheses decide
			k := ast.NumN(float64(rapid.IntRange(1, 7).Draw(rt, "ck")))
			mk := assign("mk", ast.LambdaN([]string{"n", "m"}, "", ast.LambdaN([]string{"v"}, "", ast.ArrN(ast.VarN("v"), ast.VarN("n"), ast.CallN("exists", ast.VarN("m"))))))
			var rhs *ast.Node = ast.CallE(ast.VarN("mk"), k)
			switch rapid.IntRange(0, 2).Draw(rt, "chainParens") {
			case 0:
				rhs = ast.BlockN(rhs)
				parens++
			case 1:
				rhs = ast.BlockN(ast.BlockN(rhs))
				parens++
			}
			use := ast.N(ast.Chain, ast.NameN("x"), rhs)
			if rapid.Bool().Draw(rt, "chainApplied") {
				use = ast.ArrN(use, ast.CallN("type", ast.N(ast.Chain, ast.NumN(5), rhs.Clone())))
			}
			prog = ast.BlockN(mk, use)
		}
		c := mkDiff(prog, doc, true)
		p, r, m, skip := diffRun(c)
		if skip {
			rec.Class("skipped_" + r.Why)
			return
		}
		rec.Case(c.Text, parens > 0, diffSample(c, p))
		rec.Class("outcome_" + p.Kind)
		if m != "" && rec.Fail(c, m) {
			rt.Fatalf("%s\n  expr: %s", m, c.Text)
		}
	})
}

// TestC04_RegexDivisionKeywords: '/' starts a regular expression where an
// operand is expected and is division after an operand; and, or, in are field
// names where an operand is expected.
func TestC04_RegexDivisionKeywords(t *testing.T) {
	rec := begin(t, "C04", "enumerated: '/' after every infix operator and after ( [ { , ; : ? := | and at the start (operand expected: must lex as a regular expression) and after every kind of operand — name, variable, number, string, ) ] } a[] call, lambda, regex (must be division); and/or/in in operand position (field names, checked by value on {\"and\":1,\"or\":2,\"in\":3}) and in operator position; every case is non-trivial; distinct by text")
	defer finish(t, rec)
	in := `{"and":1,"or":2,"in":3,"a":8,"s":"xay"}`
	var cases []expectCase
	add := func(text, want string, prefix bool) {
		c := expectCase{Text: text, Input: in}
		if prefix {
			c.WantPrefix = want
		} else {
			c.Want = want
		}
		cases = append(cases, c)
	}
	// operand expected -> regex
	for _, op := range []string{"+", "-", "*", "/", "%", "&", "=", "!=", "<", "<=", ">", ">=", "in", "and", "or", "~>"} {
		// "xay" OP /a/ : the right operand is a function value
		if op == "~>" {
			add(`"xay" ~> /a/`, `value {`, true)
			continue
		}
		// whatever the operator does with a function operand, the text must
		// compile (a regex was lexed): the body of the lambda is never run
		add(`$exists(function(){1 `+op+` /a/})`, `value true`, false)
		add(`$exists(function(){1 `+op+`/a/})`, `value true`, false)
	}
	add(`$match("xay", /a/).match`, `value "a"`, false)
	add(`[/a/][0]("xay").match`, `value "a"`, false)
	add(`(/a/)("xay").match`, `value "a"`, false)
	add(`{"k": /a/}.k("xay").match`, `value "a"`, false)
	add(`$contains(s, /A/i) ? /a/ : 1`, `value <function>`, false)
	add(`false ? 1 : /a/`, `value <function>`, false)
	add(`($r := /a/; $r("xay").match)`, `value "a"`, false)
	add(`(1; /a/("xay").match)`, `value "a"`, false)
	add(`$replace(s, /a/, "b")`, `value "xby"`, false)
	add(`/a/("xay").match`, `value "a"`, false)
	add(`s ~> |$|{"r": /a/}|`, `error`, true)
	add(`{"and": /y$/}.and($$.s).match`, `value "y"`, false)
	// after an operand -> division
	add(`a / 2`, `value 4`, false)
	add(`a/2`, `value 4`, false)
	add(`$$.a / 2 / 2`, `value 2`, false)
	add(`8 / 2`, `value 4`, false)
	add(`(a) / 2`, `value 4`, false)
	add(`[8][0] / 2`, `value 4`, false)
	add(`{"k": 8}.k / 2`, `value 4`, false)
	add(`a[] / 2`, `error`, true)
	add(`$sum([8]) / 2`, `value 4`, false)
	add(`function(){8}() / 2`, `value 4`, false)
	add(`"8" / 2`, `error EvalError:ErrNonNumberLHS`, true)
	add(`/a/ / 2`, `error EvalError:ErrNonNumberLHS`, true)
	add(`a / /a/`, `error EvalError:ErrNonNumberRHS`, true)
	add(`a /2 /4`, `value 1`, false)
	// keywords as field names in operand position, operators elsewhere
	add(`and`, `value 1`, false)
	add(`or`, `value 2`, false)
	add(`in`, `value 3`, false)
	add(`and + or + in`, `value 6`, false)
	add(`and and or`, `value true`, false)
	add(`or or or`, `value true`, false)
	add(`in in [in]`, `value true`, false)
	add(`and in [or, in]`, `value false`, false)
	add(`$.and = and and $.or = or`, `value true`, false)
	add(`{"x": and}.x`, `value 1`, false)
	add(`[and, or, in]`, `value [1,2,3]`, false)
	add(`and.or`, `undefined`, false)
	add(`$$.in`, `value 3`, false)
	for _, c := range cases {
		m := runExpect(c)
		rec.Case(c.Text, true, func() interface{} { return c })
		if m != "" && rec.FailNow(c, c.Text+": "+m) >= 8 {
			return
		}
	}
	rec.Exhaustive("regex_division_keyword_cases", len(cases))
}
