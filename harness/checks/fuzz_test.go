package checks

// Native coverage-guided fuzz targets (thorough tier only; the driver runs them
// with go test -fuzz). The semantic oracle is inside the target. Go's native
// fuzzer cannot be pinned to a seed; the saved failing input is the
// reproducible unit and is converted into a replay file by the driver.

import (
	"encoding/json"
	"os"
	"path/filepath"
	"testing"

	"verif/harness/internal/stats"
)

func fuzzSave(prop, check string, c interface{}, msg string) {
	dir := filepath.Join(stats.Root(), "replays", prop)
	if d := os.Getenv("VERIF_REPLAY_DIR"); d != "" {
		dir = filepath.Join(d, prop)
	}
	os.MkdirAll(dir, 0o755)
	b, _ := json.Marshal(c)
	doc := map[string]interface{}{"property": prop, "check": check, "msg": msg, "case": json.RawMessage(b)}
	out, _ := json.MarshalIndent(doc, "", " ")
	os.WriteFile(filepath.Join(dir, check+"-"+hex16(stats.Hash(string(b)))+".json"), out, 0o644)
}

func hex16(x uint64) string {
	const d = "0123456789abcdef"
	b := make([]byte, 16)
	for i := 15; i >= 0; i-- {
		b[i] = d[x&15]
		x >>= 4
	}
	return string(b)
}

// FuzzC08Compile: arbitrary bytes through the validity predicate of C08.
func FuzzC08Compile(f *testing.F) {
	for _, s := range []string{"", "a.b[0]", "!é", "function($x)<(>{$x}", "[1.䑁]", "$f := function($a,$b)<n-s?:s>{$a}", "\"\\ud83d\\ude00\"", "/a(b)?/i", "`a b`.c^(<d, >e){k: v}", "a ? b : c := d", "|$|{\"a\":1},[\"b\"]|", "1e+", "$x ~> $f(?, 1)", "**.*[]", "\xff\xfe"} {
		f.Add([]byte(s))
	}
	for i, s := range loadCorpus() {
		if i%9 == 0 && len(s) < 120 {
			f.Add([]byte(s))
		}
	}
	f.Fuzz(func(t *testing.T, data []byte) {
		if len(data) > 200 {
			return
		}
		s := string(data)
		res := c08Predicate(s)
		if res.Fail != "" {
			c := mkC08(s)
			fuzzSave("C08", "FuzzC08Compile", c, res.Fail)
			t.Fatalf("%s on %q", res.Fail, s)
		}
	})
}

// FuzzC11JSONText: byte strings that encoding/json accepts, with unique keys
// and no lone surrogate escapes, must denote themselves.
func FuzzC11JSONText(f *testing.F) {
	for _, s := range []string{`null`, `[1,2,[3]]`, `{"a":{"b":[]}}`, `"😀\n\u0000"`, `-0.0e-0`, `1.7976931348623157e308`, `[[],{},[[]]]`, ` [ 1 , "a" ] `, `{"k y":"$.[]{}()/'"}`, `12345678901234567890`, `5e-324`, `"é€😀"`, `[true,false,null]`, `"\/\\\"\b\f\r\t"`} {
		f.Add([]byte(s))
	}
	f.Fuzz(func(t *testing.T, data []byte) {
		if len(data) > 300 || !json.Valid(data) {
			return
		}
		text := string(data)
		if dup, lone := jsonTextProblems(text); dup || lone {
			return
		}
		// raw control characters and invalid UTF-8 never pass json.Valid
		c := c11Case{Text: text}
		var probe interface{}
		if err := json.Unmarshal(data, &probe); err != nil {
			c.WantError = true // number outside the double range
		}
		if m := c11Run(c); m != "" {
			fuzzSave("C11", "FuzzC11JSONText", c, m)
			t.Fatalf("%s", m)
		}
	})
}
