package checks

import (
	"fmt"
	"os"
	"strings"
	"testing"

	"github.com/blues/jsonata-go/jparse"

	"verif/harness/internal/port"
)

// TestRefProbe (development aid): VERIF_REFPROBE='<json input>|||<expr>|||<expr>...'
// prints library and reference outcomes side by side.
func TestRefProbe(t *testing.T) {
	spec := os.Getenv("VERIF_REFPROBE")
	if spec == "" {
		t.Skip("set VERIF_REFPROBE")
	}
	parts := strings.Split(spec, "|||")
	for _, e := range parts[1:] {
		n, err := jparse.Parse(e)
		if err != nil {
			fmt.Printf("%-40s compile error %v\n", e, err)
			continue
		}
		prog, ok := bridge(n)
		if !ok {
			fmt.Printf("%-40s not bridgeable\n", e)
			continue
		}
		c := diffCase{Text: e, Input: parts[0], Prog: prog}
		r := runRef(c)
		p := port.Run(e, parts[0])
		fmt.Printf("%-40s lib: %-30s ref: %s\n", e, p.String(), r.String())
	}
}
