package checks

// Isolation worker: hangs and unrecoverable runtime faults (stack overflow,
// out of memory, fatal errors) cannot be contained by recover(). Cases of the
// totality checks therefore run in a child process (this same test binary,
// re-executed with VERIF_WORKER=1) that answers one JSON line per job.

import (
	"bufio"
	"encoding/json"
	"fmt"
	"io"
	"os"
	"os/exec"
	"runtime/debug"
	"strings"
	"sync"
	"syscall"
	"time"
)

// workerOps are the operations a worker can execute; each takes the case as
// JSON and returns a JSON-serialisable result. Registered from init().
var workerOps = map[string]func(json.RawMessage) interface{}{}

type wjob struct {
	Op   string          `json:"op"`
	Case json.RawMessage `json:"case"`
}

type wres struct {
	OK     bool            `json:"ok"`
	Panic  string          `json:"panic,omitempty"` // a panic that escaped the op itself (harness bug or library panic not recovered by the op)
	Result json.RawMessage `json:"result,omitempty"`
}

func workerMain() {
	debug.SetMaxStack(256 << 20)
	// a case that legitimately asks for an enormous allocation must fail fast
	// (and is then classified as resource exhaustion, not as a violation)
	lim := syscall.Rlimit{Cur: 6 << 30, Max: 6 << 30}
	syscall.Setrlimit(syscall.RLIMIT_AS, &lim)
	in := bufio.NewReaderSize(os.Stdin, 1<<20)
	out := bufio.NewWriterSize(os.Stdout, 1<<20)
	for {
		line, err := in.ReadBytes('\n')
		if len(line) > 0 {
			var j wjob
			var r wres
			if e := json.Unmarshal(line, &j); e != nil {
				r = wres{Panic: "bad job: " + e.Error()}
			} else {
				r = runWorkerOp(j)
			}
			b, _ := json.Marshal(r)
			out.Write(b)
			out.WriteByte('\n')
			out.Flush()
		}
		if err != nil {
			return
		}
	}
}

func runWorkerOp(j wjob) (r wres) {
	defer func() {
		if p := recover(); p != nil {
			r = wres{Panic: fmt.Sprint(p) + "\n" + string(debug.Stack())}
		}
	}()
	op, ok := workerOps[j.Op]
	if !ok {
		return wres{Panic: "unknown op " + j.Op}
	}
	b, err := json.Marshal(op(j.Case))
	if err != nil {
		return wres{Panic: "unserialisable result: " + err.Error()}
	}
	return wres{OK: true, Result: b}
}

// Status of an isolated call.
const (
	isoOK      = "ok"
	isoCrash   = "crash"   // the worker process died while running the case
	isoTimeout = "timeout" // the case did not return within the confirmation limit
	isoPanic   = "panic"   // a panic escaped the op
	isoFlaky   = "inconclusive"
	isoOOM     = "oom" // the worker ran out of memory: resource exhaustion, never reported as a violation
)

type isoResult struct {
	Status string
	Result json.RawMessage
	Detail string
}

type worker struct {
	cmd    *exec.Cmd
	stdin  io.WriteCloser
	lines  chan []byte
	stderr *tailBuf
	dead   bool
}

type tailBuf struct {
	mu sync.Mutex
	b  []byte
}

func (t *tailBuf) Write(p []byte) (int, error) {
	t.mu.Lock()
	t.b = append(t.b, p...)
	if len(t.b) > 8192 {
		// keep head (fatal error line) and tail
		t.b = append(t.b[:2048:2048], t.b[len(t.b)-4096:]...)
	}
	t.mu.Unlock()
	return len(p), nil
}

func (t *tailBuf) String() string {
	t.mu.Lock()
	defer t.mu.Unlock()
	return string(t.b)
}

func startWorker() (*worker, error) {
	cmd := exec.Command(os.Args[0], "-test.run=^$")
	cmd.Env = append(os.Environ(), "VERIF_WORKER=1", "VERIF_STATS_DIR=")
	stdin, err := cmd.StdinPipe()
	if err != nil {
		return nil, err
	}
	stdout, err := cmd.StdoutPipe()
	if err != nil {
		return nil, err
	}
	w := &worker{cmd: cmd, stdin: stdin, lines: make(chan []byte, 64), stderr: &tailBuf{}}
	cmd.Stderr = w.stderr
	if err := cmd.Start(); err != nil {
		return nil, err
	}
	go func() {
		rd := bufio.NewReaderSize(stdout, 1<<20)
		for {
			line, err := rd.ReadBytes('\n')
			if len(line) > 0 {
				w.lines <- line
			}
			if err != nil {
				close(w.lines)
				return
			}
		}
	}()
	return w, nil
}

func (w *worker) kill() {
	if w == nil || w.dead {
		return
	}
	w.dead = true
	w.stdin.Close()
	w.cmd.Process.Kill()
	go func() {
		for range w.lines {
		}
	}()
	w.cmd.Wait()
}

// isolator runs cases one at a time in a worker, restarting it as needed.
type isolator struct {
	mu      sync.Mutex
	w       *worker
	first   time.Duration // first-stage limit per case
	confirm time.Duration // confirmation limit when re-run alone
}

func newIsolator() *isolator {
	first, confirm := 3*time.Second, 30*time.Second
	if Thorough() {
		first = 6 * time.Second
	}
	return &isolator{first: first, confirm: confirm}
}

func (is *isolator) Close() {
	is.mu.Lock()
	is.w.kill()
	is.w = nil
	is.mu.Unlock()
}

// once sends one job and waits up to limit.
func (is *isolator) once(op string, c []byte, limit time.Duration) isoResult {
	if is.w == nil || is.w.dead {
		w, err := startWorker()
		if err != nil {
			return isoResult{Status: "harness", Detail: err.Error()}
		}
		is.w = w
	}
	b, _ := json.Marshal(wjob{Op: op, Case: c})
	b = append(b, '\n')
	if _, err := is.w.stdin.Write(b); err != nil {
		detail := is.w.stderr.String()
		is.w.kill()
		return isoResult{Status: isoCrash, Detail: "write failed: " + err.Error() + "\n" + detail}
	}
	timer := time.NewTimer(limit)
	defer timer.Stop()
	select {
	case line, ok := <-is.w.lines:
		if !ok {
			is.w.cmd.Wait()
			detail := is.w.stderr.String()
			is.w.dead = true
			if strings.Contains(detail, "out of memory") || strings.Contains(detail, "cannot allocate memory") {
				return isoResult{Status: isoOOM, Detail: firstLines(detail, 4)}
			}
			return isoResult{Status: isoCrash, Detail: firstLines(detail, 12)}
		}
		var r wres
		if err := json.Unmarshal(line, &r); err != nil {
			return isoResult{Status: "harness", Detail: "bad worker line: " + err.Error()}
		}
		if !r.OK {
			return isoResult{Status: isoPanic, Detail: r.Panic}
		}
		return isoResult{Status: isoOK, Result: r.Result}
	case <-timer.C:
		is.w.kill()
		return isoResult{Status: isoTimeout, Detail: fmt.Sprintf("no answer within %v", limit)}
	}
}

// Call runs one case in isolation with the two-stage time limit: a first-stage
// timeout is re-run alone in a fresh worker with the confirmation limit and is
// reported as a timeout only if it still does not return.
func (is *isolator) Call(op string, c []byte) isoResult {
	is.mu.Lock()
	defer is.mu.Unlock()
	r := is.once(op, c, is.first)
	if r.Status != isoTimeout {
		return r
	}
	r2 := is.once(op, c, is.confirm)
	if r2.Status == isoTimeout {
		return r2
	}
	if r2.Status == isoOK {
		return isoResult{Status: isoFlaky, Result: r2.Result, Detail: "first-stage timeout did not reproduce"}
	}
	return r2
}

func firstLines(s string, n int) string {
	lines := strings.Split(s, "\n")
	if len(lines) > n {
		lines = lines[:n]
	}
	return strings.Join(lines, "\n")
}
