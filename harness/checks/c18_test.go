package checks

// C18 — Number conversion, rounding and formatting are exact and always
// terminate. Oracles: strconv (shortest round-tripping decimal, the $number
// grammar), exact decimal-string / big-number arithmetic for $round and
// $formatBase, math for the elementary functions, and a read-back validity
// predicate for $formatNumber. Every $formatNumber call runs in the isolated
// worker (termination).

import (
	"encoding/json"
	"fmt"
	"math"
	"math/big"
	"strconv"
	"strings"
	"testing"

	jsonata "github.com/blues/jsonata-go"
	"pgregory.net/rapid"

	"verif/harness/internal/port"
	"verif/harness/internal/ref"
	"verif/harness/internal/stats"
	"verif/harness/internal/val"
)

// ---- generic "expression over p0, p1" cases (in-process, compiled once)

type c18Case struct {
	Fn   string        `json:"fn"`
	Args []interface{} `json:"args"`
}

var c18Exprs = map[string]string{
	"string":         `$string(p0)`,
	"number":         `$number(p0)`,
	"number-string":  `$number($string(p0)) = p0`,
	"round1":         `$round(p0)`,
	"round2":         `$round(p0, p1)`,
	"floor":          `$floor(p0)`,
	"ceil":           `$ceil(p0)`,
	"abs":            `$abs(p0)`,
	"sqrt":           `$sqrt(p0)`,
	"power":          `$power(p0, p1)`,
	"formatBase1":    `$formatBase(p0)`,
	"formatBase2":    `$formatBase(p0, p1)`,
	"string-concat":  `p0 & ""`,
	"number-boolean": `[$number(true), $number(false)]`,
}

var c18Compiled = map[string]*jsonata.Expr{}

func c18Expr(fn string) *jsonata.Expr {
	if e, ok := c18Compiled[fn]; ok {
		return e
	}
	e, o := port.Compile(c18Exprs[fn])
	if o != nil {
		panic("C18 expression does not compile: " + c18Exprs[fn])
	}
	c18Compiled[fn] = e
	return e
}

func shortestDigits(x float64) string {
	s := strconv.FormatFloat(math.Abs(x), 'e', -1, 64)
	m, _, _ := strings.Cut(s, "e")
	return strings.TrimRight(strings.Replace(m, ".", "", 1), "0")
}

func digitsOf(s string) string {
	m := s
	if i := strings.IndexAny(m, "eE"); i >= 0 {
		m = m[:i]
	}
	m = strings.TrimPrefix(m, "-")
	m = strings.Replace(m, ".", "", 1)
	m = strings.TrimLeft(m, "0")
	return strings.TrimRight(m, "0")
}

// c18Oracle returns the acceptable outcomes (rendered like port.Outcome.String(),
// "error" for any error) or nil when the case is outside the stated domain.
func c18Oracle(c c18Case) []string {
	f := func(i int) float64 { x, _ := c.Args[i].(float64); return x }
	okN := func(x float64) string {
		if x == 0 {
			x = 0 // the sign of zero is not part of the contract
		}
		return "value " + val.Canon(val.N(x))
	}
	mathOrErr := func(x float64) []string {
		if math.IsNaN(x) || math.IsInf(x, 0) {
			return []string{"error"}
		}
		return []string{okN(x)}
	}
	switch c.Fn {
	case "number":
		s, _ := c.Args[0].(string)
		if x, ok := ref.ParseNumberRef(s); ok {
			return []string{okN(x)}
		}
		return []string{"error"}
	case "number-string":
		return []string{"value true"}
	case "number-boolean":
		return []string{"value [1,0]"}
	case "round1":
		x := f(0)
		if math.Abs(x) >= 1<<53 {
			return nil
		}
		return []string{okN(ref.RoundHalfEven(x, 0))}
	case "round2":
		x, p := f(0), int(f(1))
		if math.Abs(x)*math.Pow(10, float64(p)) >= 1<<53 {
			return nil // beyond this the scaled value is not exactly representable
		}
		return []string{okN(ref.RoundHalfEven(x, p))}
	case "floor":
		return mathOrErr(math.Floor(f(0)))
	case "ceil":
		return mathOrErr(math.Ceil(f(0)))
	case "abs":
		return mathOrErr(math.Abs(f(0)))
	case "sqrt":
		if f(0) < 0 {
			return []string{"error"}
		}
		return mathOrErr(math.Sqrt(f(0)))
	case "power":
		return mathOrErr(math.Pow(f(0), f(1)))
	case "formatBase1", "formatBase2":
		x := f(0)
		if math.Abs(x) >= 1<<62 {
			return nil
		}
		bases := []int{10}
		strictErr := false
		if c.Fn == "formatBase2" {
			b := f(1)
			bases = []int{int(ref.RoundHalfEven(b, 0))}
			if b != math.Trunc(b) {
				strictErr = true // a fractional radix may be rejected or rounded first
			}
		}
		var out []string
		for _, b := range bases {
			if b < 2 || b > 36 {
				out = append(out, "error")
				continue
			}
			n := new(big.Int)
			new(big.Float).SetFloat64(ref.RoundHalfEven(x, 0)).Int(n)
			b, _ := json.Marshal(n.Text(b))
			out = append(out, "value "+string(b))
		}
		if strictErr {
			out = append(out, "error")
		}
		return out
	}
	return nil
}

// c18Run judges one case; for "string" the check is the shortest-form criterion.
func c18Run(c c18Case) (string, bool) {
	in := map[string]interface{}{}
	for i, a := range c.Args {
		in[fmt.Sprintf("p%d", i)] = a
	}
	out := port.Eval(c18Expr(c.Fn), in)
	if c.Fn == "string" || c.Fn == "string-concat" {
		x, _ := c.Args[0].(float64)
		if out.Kind != port.KValue || out.Val.K != val.Str {
			return fmt.Sprintf("%s of %v gives %s", c18Exprs[c.Fn], x, out.String()), true
		}
		s := out.Val.S
		back, err := strconv.ParseFloat(s, 64)
		if err != nil || back != x {
			return fmt.Sprintf("$string(%v) = %q does not read back to the same double", x, s), true
		}
		if digitsOf(s) != shortestDigits(x) {
			return fmt.Sprintf("$string(%v) = %q is not the shortest decimal form (shortest digits: %s)", x, s, shortestDigits(x)), true
		}
		if _, ok := ref.ParseNumberRef(s); !ok {
			return fmt.Sprintf("$string(%v) = %q is not in the grammar $number accepts", x, s), true
		}
		return "", true
	}
	want := c18Oracle(c)
	if want == nil {
		return "", false
	}
	got := out.String()
	if out.Kind == port.KValue && out.Val.K == val.Num && out.Val.N == 0 {
		got = "value 0" // the sign of zero is not part of the contract
	}
	for _, w := range want {
		if w == got || (w == "error" && out.Kind == port.KError) {
			return "", true
		}
	}
	return fmt.Sprintf("%s with %s gives %s; exact arithmetic gives %s", c18Exprs[c.Fn], mustJSON(c.Args), got, strings.Join(want, " or ")), true
}

func init() {
	registerReplay("TestC18_Numbers", func(raw json.RawMessage) string {
		var c c18Case
		if err := json.Unmarshal(raw, &c); err != nil {
			return "bad case: " + err.Error()
		}
		m, _ := c18Run(c)
		return m
	})
	registerReplay("TestC18_NumberGrammar", func(raw json.RawMessage) string {
		var c c18Case
		if err := json.Unmarshal(raw, &c); err != nil {
			return "bad case: " + err.Error()
		}
		m, _ := c18Run(c)
		return m
	})
	fn := func(raw json.RawMessage) string {
		var c fmtCase
		if err := json.Unmarshal(raw, &c); err != nil {
			return "bad case: " + err.Error()
		}
		is := newIsolator()
		defer is.Close()
		m, _ := fmtRun(is, c)
		return m
	}
	registerReplay("TestC18_FormatNumber", fn)
	registerReplay("TestC18_Findings", fn)
	workerOps["evalv"] = func(raw json.RawMessage) interface{} {
		var c evalCase
		if err := json.Unmarshal(raw, &c); err != nil {
			return evalResult{Kind: "bad_case", Msg: err.Error()}
		}
		o := port.Run(c.Text, c.Input)
		r := evalResult{Kind: o.Kind, Err: o.Err, Msg: o.Msg, Site: o.Site}
		if o.Kind == port.KValue {
			r.Msg = o.Repr
		}
		return r
	}
}

func genDouble() *rapid.Generator[float64] {
	return rapid.Custom(func(t *rapid.T) float64 {
		var x float64
		switch rapid.IntRange(0, 9).Draw(t, "dkind") {
		case 0, 1: // integers
			x = float64(rapid.Int64Range(-1000000, 1000000).Draw(t, "int"))
		case 2, 3, 4: // decimal fractions with 0..6 digits
			d := rapid.IntRange(0, 6).Draw(t, "digits")
			n := rapid.Int64Range(-99999999, 99999999).Draw(t, "mant")
			x, _ = strconv.ParseFloat(fmt.Sprintf("%de-%d", n, d), 64)
		case 5: // exact ties k + 0.5 at some digit
			d := rapid.IntRange(0, 5).Draw(t, "tieDigits")
			k := rapid.Int64Range(-99999, 99999).Draw(t, "tieK")
			x, _ = strconv.ParseFloat(fmt.Sprintf("%d5e-%d", k, d+1), 64)
		case 6: // powers of ten
			x = math.Pow(10, float64(rapid.IntRange(-12, 21).Draw(t, "pow")))
			if rapid.Bool().Draw(t, "negPow") {
				x = -x
			}
		case 7: // neighbours
			base := float64(rapid.Int64Range(-1000, 1000).Draw(t, "nb")) / 8
			x = math.Nextafter(base, math.Inf(rapid.SampledFrom([]int{-1, 1}).Draw(t, "dir")))
		case 8:
			x = rapid.SampledFrom([]float64{0, math.Copysign(0, -1), 0.1, 0.2, 0.3, 1e21, 1e-7, 123456789012345680, 5e-324, 1.7976931348623157e308, 0.000001, 9007199254740993}).Draw(t, "special")
		default:
			x = rapid.Float64().Draw(t, "any")
			if math.IsNaN(x) || math.IsInf(x, 0) {
				x = 1.5
			}
		}
		return x
	})
}

// TestC18_Numbers: $string, $number, $round, elementary functions, $formatBase.
func TestC18_Numbers(t *testing.T) {
	rec := begin(t, "C18", "rapid: doubles drawn from integers, decimal fractions with 0..6 digits, exact ties, powers of ten 1e-12..1e21, neighbours of eighths, special values and arbitrary finite doubles; $string (shortest round-tripping decimal, via $string and via &), $number($string(x)) = x, $round(x) and $round(x, p) for p in -6..12 with |x|*10^p < 2^53 (exact half-even on the shortest decimal), $floor/$ceil/$abs/$sqrt/$power (math results, error instead of NaN/infinity), $formatBase for |x| < 2^62 and bases 0..40 incl. fractional (numeral of round(x) via math/big; fractional radix: rounded reading or rejection); non-trivial = every judged case; distinct by (function, arguments)")
	defer finish(t, rec)
	dbl := genDouble()
	fns := []string{"string", "string", "string-concat", "number-string", "round1", "round2", "round2", "round2", "floor", "ceil", "abs", "sqrt", "power", "formatBase1", "formatBase2", "formatBase2", "number-boolean"}
	rapidRun(t, rec, 60000, 800000, func(rt *rapid.T) {
		c := c18Case{Fn: rapid.SampledFrom(fns).Draw(rt, "fn")}
		switch c.Fn {
		case "round2":
			x := dbl.Draw(rt, "x")
			if rapid.IntRange(0, 2).Draw(rt, "smallX") > 0 {
				x = float64(rapid.Int64Range(-9999999, 9999999).Draw(rt, "m")) / math.Pow(10, float64(rapid.IntRange(0, 7).Draw(rt, "d")))
			}
			c.Args = []interface{}{x, float64(rapid.IntRange(-6, 12).Draw(rt, "p"))}
		case "power":
			c.Args = []interface{}{dbl.Draw(rt, "x"), rapid.SampledFrom([]float64{0, 1, 2, 0.5, -1, 3, 10, -0.5, 400, 1.5}).Draw(rt, "y")}
		case "formatBase2":
			x := dbl.Draw(rt, "x")
			b := float64(rapid.IntRange(0, 40).Draw(rt, "b"))
			if rapid.IntRange(0, 5).Draw(rt, "fracBase") == 0 {
				b += rapid.SampledFrom([]float64{0.5, 0.25, 0.75}).Draw(rt, "bf")
			}
			c.Args = []interface{}{x, b}
		case "number-boolean":
			c.Args = []interface{}{}
		default:
			c.Args = []interface{}{dbl.Draw(rt, "x")}
		}
		m, judged := c18Run(c)
		if !judged {
			rec.Class("outside_domain")
			return
		}
		rec.Case(c.Fn+"|"+string(mustJSON(c.Args)), true, func() interface{} { return c })
		rec.Class("fn_" + c.Fn)
		if m != "" && rec.Fail(c, m) {
			rt.Fatalf("%s", m)
		}
	})
}

// TestC18_NumberGrammar: every string over a number-like alphabet.
func TestC18_NumberGrammar(t *testing.T) {
	rec := begin(t, "C18", "exhaustive: every string of length <= 4 (thorough: <= 6) over {0,1,9,-,+,.,e,E,space,x}: $number accepts it iff it is an optional minus sign, digits, an optional fraction and an optional exponent, and then returns strconv's nearest double; non-trivial = length >= 2; distinct by string")
	defer finish(t, rec)
	alpha := []string{"0", "1", "9", "-", "+", ".", "e", "E", " ", "x"}
	maxLen := stats.Scale(4, 6)
	shard, nshards := stats.Shard()
	n := 0
	var gen func(prefix string, depth int) bool
	gen = func(prefix string, depth int) bool {
		if depth > 0 {
			n++
			if n%nshards == shard {
				c := c18Case{Fn: "number", Args: []interface{}{prefix}}
				m, _ := c18Run(c)
				rec.Case(prefix, len(prefix) >= 2, func() interface{} { return c })
				if m != "" && rec.FailNow(c, m) >= 8 {
					return false
				}
			}
		}
		if depth == maxLen {
			return true
		}
		for _, a := range alpha {
			if !gen(prefix+a, depth+1) {
				return false
			}
		}
		return true
	}
	gen("", 0)
	// spellings that Go's own number parser accepts but the grammar does not (and a few it does)
	for _, s := range []string{"Infinity", "-Infinity", "+Infinity", "inf", "-inf", "Inf", "-INF", "NaN", "nan", "-NaN", "0x10", "0X1p4", "-0x1p-2", "1_000", "0b11", "0o17", "1e5", "-1.5E-3", "1.", ".5", "-.5", "+1", "١٢", "1e", "e1", "1e+", "00", "01", "-01", "1.0e01", "1.5e+03", "0.25e01", "1e00", "1 ", " 1", "1\n", "\t1", "1,5", "1e1.5", "--1", "1-", "true", "", "-", ".", "1e999", "-1e999", "123456789012345678901234567890"} {
		n++
		if n%nshards != shard {
			continue
		}
		c := c18Case{Fn: "number", Args: []interface{}{s}}
		m, _ := c18Run(c)
		rec.Case(s, true, func() interface{} { return c })
		if m != "" && rec.FailNow(c, m) >= 8 {
			return
		}
	}
	rec.Exhaustive("number_like_strings", n)
	if nshards == 1 {
		rec.AllExhaustive()
	}
}

// ---- $formatNumber

type subPic struct {
	Prefix    string `json:"prefix"`
	Suffix    string `json:"suffix"`
	Int       string `json:"int"`  // integer part: '#', '0', ','
	Frac      string `json:"frac"` // fraction part: '0', '#', ','
	Exp       string `json:"exp"`  // exponent digits ('0's), "" = none
	Pct       string `json:"pct"`  // "", "%" or "‰" (contained in prefix or suffix)
	HasPoint  bool   `json:"point"`
}

func (s subPic) String() string {
	out := s.Prefix + s.Int
	if s.HasPoint {
		out += "." + s.Frac
	}
	if s.Exp != "" {
		out += "e" + s.Exp
	}
	return out + s.Suffix
}

type fmtCase struct {
	X       float64 `json:"x"`
	Pos     subPic  `json:"pos"`
	Neg     *subPic `json:"neg,omitempty"`
	Invalid string  `json:"invalid,omitempty"` // a picture outside the grammar: must be an error
	Options string  `json:"options,omitempty"` // "" | "swap" (decimal ',' grouping '.') | "arabic" (zero digit U+0660) | "custom" | "minus" (minus sign only: same picture string as without options)
	Warm    bool    `json:"warm,omitempty"`    // history: the same picture string is used under the default format first (result not judged)
}

func (c fmtCase) picture() string {
	if c.Invalid != "" {
		return c.Invalid
	}
	p := c.Pos.String()
	if c.Neg != nil {
		p += ";" + c.Neg.String()
	}
	switch c.Options {
	case "swap":
		p = strings.Map(func(r rune) rune {
			switch r {
			case '.':
				return ','
			case ',':
				return '.'
			}
			return r
		}, p)
	case "arabic":
		p = strings.ReplaceAll(p, "0", "٠")
	case "custom":
		p = strings.Map(func(r rune) rune {
			if c, ok := c18Custom[r]; ok {
				return c
			}
			return r
		}, p)
	}
	return p
}

// c18Custom: every active character of the picture grammar replaced through
// the decimal-format options (standard -> custom).
var c18Custom = map[rune]rune{'.': '⁏', ',': '⁞', '%': '℅', '‰': '؉', 'e': 'ⅇ', '#': '@', ';': '‖', '-': '¬'}

const c18CustomOptions = `, {"decimal-separator": "⁏", "grouping-separator": "⁞", "percent": "℅", "per-mille": "؉", "exponent-separator": "ⅇ", "digit": "@", "pattern-separator": "‖", "minus-sign": "¬"}`

func (c fmtCase) expr() string {
	b, _ := json.Marshal(c.picture())
	opts := ""
	switch c.Options {
	case "swap":
		opts = `, {"decimal-separator": ",", "grouping-separator": "."}`
	case "arabic":
		opts = `, {"zero-digit": "٠"}`
	case "custom":
		opts = c18CustomOptions
	case "minus":
		opts = `, {"minus-sign": "¬"}`
	}
	return "$formatNumber(x, " + string(b) + opts + ")"
}

func countRunes(s string, set string) int {
	n := 0
	for _, r := range s {
		if strings.ContainsRune(set, r) {
			n++
		}
	}
	return n
}

// groupPositions lists, for every separator, the number of digits between it
// and the decimal point.
func groupPositions(part string, fromRight bool) []int {
	var pos []int
	rs := []rune(part)
	for i, r := range rs {
		if r != ',' {
			continue
		}
		var side []rune
		if fromRight {
			side = rs[i+1:]
		} else {
			side = rs[:i]
		}
		pos = append(pos, countRunes(string(side), "0#"))
	}
	return pos
}

func regularGroup(pos []int) int {
	if len(pos) == 0 {
		return 0
	}
	g := 0
	for _, p := range pos {
		g = gcdInt(g, p)
	}
	for i := 1; i <= len(pos); i++ {
		found := false
		for _, p := range pos {
			if p == g*i {
				found = true
			}
		}
		if !found {
			return 0
		}
	}
	return g
}

func gcdInt(a, b int) int {
	for b != 0 {
		a, b = b, a%b
	}
	return a
}

// fmtReadBack is the validity predicate of the statement for one output.
func fmtReadBack(c fmtCase, out string) string {
	x := c.X
	neg := x < 0
	sub := c.Pos
	minus := ""
	if neg {
		if c.Neg != nil {
			sub = *c.Neg
		} else {
			minus = "-"
		}
	}
	switch c.Options {
	case "swap":
		out = strings.Map(func(r rune) rune {
			switch r {
			case '.':
				return ','
			case ',':
				return '.'
			}
			return r
		}, out)
	case "arabic":
		out = strings.Map(func(r rune) rune {
			if r >= '٠' && r <= '٩' {
				return '0' + (r - '٠')
			}
			return r
		}, out)
	case "minus":
		if neg && c.Neg == nil && strings.HasPrefix(out, "-") {
			return `the numeral starts with "-" although the options make the minus sign "¬"`
		}
		out = strings.ReplaceAll(out, "¬", "-")
	case "custom":
		// back to the standard characters (the standard ones must not appear)
		for std, cu := range c18Custom {
			if std != 'e' && std != '#' && std != ';' && strings.ContainsRune(strings.TrimSuffix(strings.TrimPrefix(out, sub.Prefix), sub.Suffix), std) && !strings.ContainsRune(sub.Prefix+sub.Suffix, std) {
				return fmt.Sprintf("the numeral contains the standard character %q although the options replace it by %q", std, cu)
			}
		}
		out = strings.Map(func(r rune) rune {
			for std, cu := range c18Custom {
				if r == cu {
					return std
				}
			}
			return r
		}, out)
	}
	if !strings.HasPrefix(out, minus+sub.Prefix) {
		return fmt.Sprintf("the numeral does not start with %q", minus+sub.Prefix)
	}
	body := strings.TrimPrefix(out, minus+sub.Prefix)
	if !strings.HasSuffix(body, sub.Suffix) {
		return fmt.Sprintf("the numeral does not end with the suffix %q", sub.Suffix)
	}
	body = strings.TrimSuffix(body, sub.Suffix)
	exp := 0
	if sub.Exp != "" {
		i := strings.IndexByte(body, 'e')
		if i < 0 {
			return "exponent picture but no exponent separator in the numeral"
		}
		es := body[i+1:]
		body = body[:i]
		ds := strings.TrimPrefix(es, "-")
		if len(ds) < len(sub.Exp) || strings.Trim(ds, "0123456789") != "" || ds == "" {
			return fmt.Sprintf("bad exponent part %q (at least %d digits wanted)", es, len(sub.Exp))
		}
		exp, _ = strconv.Atoi(es)
	} else if strings.ContainsAny(body, "eE") {
		return "unexpected exponent in the numeral"
	}
	ipart, fpart := body, ""
	if i := strings.IndexByte(body, '.'); i >= 0 {
		ipart, fpart = body[:i], body[i+1:]
		if fpart == "" {
			return "decimal separator without fraction digits"
		}
	}
	if strings.Trim(ipart, "0123456789,") != "" || strings.Trim(fpart, "0123456789,") != "" {
		return fmt.Sprintf("unexpected characters in the numeral body %q", body)
	}
	idig, fdig := strings.ReplaceAll(ipart, ",", ""), strings.ReplaceAll(fpart, ",", "")
	minInt, minFrac, maxFrac := strings.Count(sub.Int, "0"), strings.Count(sub.Frac, "0"), countRunes(sub.Frac, "0#")
	if minInt == 0 && maxFrac == 0 && sub.Exp == "" {
		minInt = 1
	}
	if len(idig) < minInt {
		return fmt.Sprintf("integer part %q has fewer than the %d mandatory digits", ipart, minInt)
	}
	if len(fdig) < minFrac || len(fdig) > maxFrac {
		if !(sub.Exp != "" && maxFrac == 0 && minInt == 0 && len(fdig) <= 1) {
			return fmt.Sprintf("fraction part %q has %d digits, the picture allows %d..%d", fpart, len(fdig), minFrac, maxFrac)
		}
	}
	// grouping separators at the picture's positions
	wantI := map[int]bool{}
	ipos := groupPositions(sub.Int, true)
	if g := regularGroup(ipos); g > 0 {
		for p := g; p < len(idig); p += g {
			wantI[p] = true
		}
	} else {
		for _, p := range ipos {
			if p > 0 && p < len(idig) {
				wantI[p] = true
			}
		}
	}
	gotI := map[int]bool{}
	seen := 0
	for i := len(ipart) - 1; i >= 0; i-- {
		if ipart[i] == ',' {
			gotI[seen] = true
		} else {
			seen++
		}
	}
	if fmt.Sprint(wantI) != fmt.Sprint(gotI) {
		return fmt.Sprintf("integer part %q has grouping separators at %v digits from the right, the picture puts them at %v", ipart, keysOf(gotI), keysOf(wantI))
	}
	wantF := map[int]bool{}
	for _, p := range groupPositions(sub.Frac, false) {
		if p > 0 && p < len(fdig) {
			wantF[p] = true
		}
	}
	gotF := map[int]bool{}
	seen = 0
	for i := 0; i < len(fpart); i++ {
		if fpart[i] == ',' {
			gotF[seen] = true
		} else {
			seen++
		}
	}
	if fmt.Sprint(wantF) != fmt.Sprint(gotF) {
		return fmt.Sprintf("fraction part %q has grouping separators after %v digits, the picture puts them after %v", fpart, keysOf(gotF), keysOf(wantF))
	}
	// value
	read := new(big.Rat)
	ds := idig + fdig
	if ds == "" {
		ds = "0"
	}
	n, _ := new(big.Int).SetString(ds, 10)
	read.SetInt(n)
	scale := new(big.Rat).SetInt(new(big.Int).Exp(big.NewInt(10), big.NewInt(int64(len(fdig))), nil))
	read.Quo(read, scale)
	abs := math.Abs(x)
	mult := 1.0
	switch sub.Pct {
	case "%":
		mult = 100
	case "‰":
		mult = 1000
	}
	if sub.Exp == "" {
		// candidates: half-even rounding of the float product and of the exact decimal product
		cands := []float64{abs * mult}
		if d, err := strconv.ParseFloat(strconv.FormatFloat(abs, 'f', -1, 64)+"e"+strconv.Itoa(int(math.Log10(mult))), 64); err == nil {
			cands = append(cands, d)
		}
		for _, v := range cands {
			// the scaled value as JSONata prints it (its shortest decimal form),
			// rounded half-to-even on the decimal grid of the picture, exactly
			dec, ok := new(big.Rat).SetString(strconv.FormatFloat(v, 'f', -1, 64))
			if ok && ratRoundHalfEven(dec, maxFrac).Cmp(read) == 0 {
				return ""
			}
		}
		return fmt.Sprintf("the numeral reads back as %s, but %v x %v rounded to %d fraction digits is %s", read.FloatString(maxFrac+2), abs, mult, maxFrac, strconv.FormatFloat(ref.RoundHalfEven(abs*mult, maxFrac), 'f', maxFrac, 64))
	}
	// exponent picture: mantissa x 10^exp must be x rounded at the mantissa's last digit
	v := new(big.Rat).Set(read)
	p10 := new(big.Rat).SetInt(new(big.Int).Exp(big.NewInt(10), big.NewInt(int64(absInt(exp))), nil))
	if exp >= 0 {
		v.Mul(v, p10)
	} else {
		v.Quo(v, p10)
	}
	if abs == 0 {
		if read.Sign() != 0 {
			return "zero must be rendered with a zero mantissa"
		}
		return ""
	}
	diff := new(big.Rat).Sub(v, new(big.Rat).SetFloat64(abs))
	diff.Abs(diff)
	// half a unit of the mantissa's last printed digit, scaled by the exponent
	ulp := new(big.Rat).SetFrac(big.NewInt(1), new(big.Int).Exp(big.NewInt(10), big.NewInt(int64(len(fdig))), nil))
	if exp >= 0 {
		ulp.Mul(ulp, p10)
	} else {
		ulp.Quo(ulp, p10)
	}
	half := new(big.Rat).Mul(ulp, big.NewRat(500001, 1000000))
	if diff.Cmp(half) > 0 {
		return fmt.Sprintf("mantissa x 10^exponent reads back as %s, which is further than half a unit of the last mantissa digit from %v", v.FloatString(len(fdig)+absInt(exp)+2), abs)
	}
	// mantissa scaled into the range the picture's integer part dictates
	sf := strings.Count(sub.Int, "0")
	lo := new(big.Rat).SetFrac(big.NewInt(1), big.NewInt(10))
	hi := big.NewRat(1, 1)
	for i := 0; i < sf; i++ {
		lo.Mul(lo, big.NewRat(10, 1))
		hi.Mul(hi, big.NewRat(10, 1))
	}
	if read.Cmp(lo) < 0 || read.Cmp(hi) > 0 {
		// rounding may carry the mantissa to the upper bound; anything outside [lo, hi] is wrong
		return fmt.Sprintf("mantissa %s is outside the range [%s, %s] that %d mandatory integer digits dictate", read.FloatString(len(fdig)), lo.FloatString(1), hi.FloatString(0), sf)
	}
	return ""
}

func absInt(a int) int {
	if a < 0 {
		return -a
	}
	return a
}

func keysOf(m map[int]bool) []int {
	var ks []int
	for k := range m {
		ks = append(ks, k)
	}
	for i := 1; i < len(ks); i++ {
		for j := i; j > 0 && ks[j] < ks[j-1]; j-- {
			ks[j], ks[j-1] = ks[j-1], ks[j]
		}
	}
	return ks
}

// ratRoundHalfEven rounds an exact rational to d fraction digits, half to even.
func ratRoundHalfEven(r *big.Rat, d int) *big.Rat {
	scale := new(big.Int).Exp(big.NewInt(10), big.NewInt(int64(d)), nil)
	scaled := new(big.Rat).Mul(r, new(big.Rat).SetInt(scale))
	q, rem := new(big.Int).QuoRem(scaled.Num(), scaled.Denom(), new(big.Int))
	twice := new(big.Int).Mul(rem, big.NewInt(2))
	switch twice.CmpAbs(scaled.Denom()) {
	case 1:
		q.Add(q, big.NewInt(int64(scaled.Sign())))
	case 0:
		if q.Bit(0) == 1 {
			q.Add(q, big.NewInt(int64(scaled.Sign())))
		}
	}
	return new(big.Rat).SetFrac(q, scale)
}

func fmtRun(is *isolator, c fmtCase) (string, string) {
	in := val.JSON(val.O(map[string]val.Value{"x": val.N(c.X)}))
	if c.Warm && c.Options != "" {
		// the same picture string under the default format, then - judged -
		// under the options: the analysis of a picture depends on both
		b, _ := json.Marshal(c.picture())
		is.Call("evalv", mustJSON(evalCase{Text: "$formatNumber(x, " + string(b) + ")", Input: in}))
	}
	r := is.Call("evalv", mustJSON(evalCase{Text: c.expr(), Input: in}))
	switch r.Status {
	case isoOK:
	case isoFlaky, isoOOM:
		return "", "inconclusive"
	case isoTimeout:
		return c.expr() + " did not return: " + r.Detail, "timeout"
	case isoCrash:
		return c.expr() + " crashed the process: " + r.Detail, "crash"
	default:
		return "harness: " + r.Detail, "harness"
	}
	var res evalResult
	json.Unmarshal(r.Result, &res)
	if res.Kind == port.KPanic {
		return fmt.Sprintf("%s panicked at %s: %s", c.expr(), res.Site, res.Msg), res.Kind
	}
	if c.Invalid != "" {
		if res.Kind != port.KError {
			return fmt.Sprintf("%s: the picture is outside the decimal-format grammar and must be rejected, the library gives %s %s", c.expr(), res.Kind, res.Msg), res.Kind
		}
		return "", res.Kind
	}
	if res.Kind != port.KValue {
		return fmt.Sprintf("%s with x = %v gives %s %s %s", c.expr(), c.X, res.Kind, res.Err, res.Msg), res.Kind
	}
	var s string
	if json.Unmarshal([]byte(res.Msg), &s) != nil {
		return fmt.Sprintf("%s does not yield a string: %s", c.expr(), res.Msg), res.Kind
	}
	if m := fmtReadBack(c, s); m != "" {
		return fmt.Sprintf("%s with x = %v gives %q: %s", c.expr(), c.X, s, m), res.Kind
	}
	return "", res.Kind
}

func genDigitsPart(t *rapid.T, label string, mandatoryFirst bool, allowEmpty bool) string {
	// integer part: '#'* '0'* ; fraction part: '0'* '#'*  — with separators between digits
	nOpt := rapid.IntRange(0, 3).Draw(t, label+"Opt")
	nMan := rapid.IntRange(0, 4).Draw(t, label+"Man")
	if nOpt+nMan == 0 && !allowEmpty {
		nMan = 1
	}
	var digits string
	if mandatoryFirst {
		digits = strings.Repeat("0", nMan) + strings.Repeat("#", nOpt)
	} else {
		digits = strings.Repeat("#", nOpt) + strings.Repeat("0", nMan)
	}
	if len(digits) < 2 || rapid.IntRange(0, 2).Draw(t, label+"Grouped") > 0 {
		return digits
	}
	// insert separators between digits
	var sb strings.Builder
	regular := rapid.Bool().Draw(t, label+"Regular")
	g := rapid.IntRange(1, 3).Draw(t, label+"G")
	for i, r := range digits {
		sb.WriteRune(r)
		rest := len(digits) - 1 - i // digits to the right
		left := i + 1
		if rest == 0 {
			break
		}
		if regular {
			k := rest
			if mandatoryFirst {
				k = left
			}
			if k%g == 0 {
				sb.WriteByte(',')
			}
		} else if rapid.IntRange(0, 2).Draw(t, label+"Sep") == 0 {
			sb.WriteByte(',')
		}
	}
	return sb.String()
}

func genSubPic(t *rapid.T, label string) subPic {
	s := subPic{}
	s.Int = genDigitsPart(t, label+"I", false, true)
	if rapid.IntRange(0, 2).Draw(t, label+"HasFrac") > 0 || s.Int == "" {
		s.HasPoint = true
		s.Frac = genDigitsPart(t, label+"F", true, s.Int != "")
		if s.Frac == "" {
			s.HasPoint = false
		}
	}
	fix := []string{"", "", "$", "x ", " units", "(", ")", "~", "EUR ", " items", "net ", " euro"}
	s.Prefix = rapid.SampledFrom(fix).Draw(t, label+"Prefix")
	s.Suffix = rapid.SampledFrom(fix).Draw(t, label+"Suffix")
	switch rapid.IntRange(0, 9).Draw(t, label+"Kind") {
	case 0, 1:
		s.Pct = "%"
		if rapid.IntRange(0, 2).Draw(t, label+"PctInPrefix") == 0 {
			s.Prefix += "%" // the sign may stand before the digits as well
		} else {
			s.Suffix = "%" + s.Suffix
		}
	case 2:
		s.Pct = "‰"
		if rapid.IntRange(0, 2).Draw(t, label+"PmInPrefix") == 0 {
			s.Prefix = "‰" + s.Prefix
		} else {
			s.Suffix += "‰"
		}
	case 3, 4:
		// exponent picture: no grouping separators
		s.Int = strings.ReplaceAll(s.Int, ",", "")
		s.Frac = strings.ReplaceAll(s.Frac, ",", "")
		s.Exp = strings.Repeat("0", rapid.IntRange(1, 3).Draw(t, label+"ExpDigits"))
		if strings.ContainsAny(s.Prefix+s.Suffix, "eE") {
			s.Prefix, s.Suffix = "", ""
		}
	}
	if s.Exp == "" && s.Pct == "" && strings.Count(s.Prefix+s.Suffix, "e") == 1 {
		// one exponent-separator letter in the text around the digits of a
		// picture without exponent or percent part is passive text ("0 items")
		return s
	}
	if strings.ContainsAny(s.Prefix+s.Suffix, "eE") && s.Exp == "" {
		// otherwise keep 'e' out of passive text: the port counts every such
		// letter as an exponent separator when it validates the sub-picture
		s.Prefix = strings.NewReplacer("e", "", "E", "").Replace(s.Prefix)
		s.Suffix = strings.NewReplacer("e", "", "E", "").Replace(s.Suffix)
	}
	return s
}

var c18InvalidPictures = []string{
	"", "0.0.0", "#.#.#", "0%%", "0%‰", "0‰%", "0,,0", "#,,##0", "0,.0", "0.,0", "0,", "#0,", "0#", "00#.0", ".#0", "0.#0", "0x0", "#a0", "0;0;0", "0;;0", ";0", "0e0%", "%0e0", "0e0e0", "abc", "$", ",", ".",
	// not listed: "0e" and "e0" — an 'e' that is not both preceded and
	// followed by a digit is passive text, so these pictures are valid
}

// TestC18_FormatNumber: pictures from the decimal-format grammar, read back.
func TestC18_FormatNumber(t *testing.T) {
	rec := begin(t, "C18", "rapid: $formatNumber(x, picture[, options]) with pictures generated from the decimal-format grammar (optional/mandatory integer and fraction digits, regular and irregular grouping in both parts, percent, per-mille, exponent, prefix/suffix text, a second sub-picture, custom separators / zero digit) and x from integers, decimal fractions incl. ties, powers of ten, 0, -0 and negatives; oracle = read-back validity predicate (prefix/suffix/minus sign or negative sub-picture, mandatory digits, grouping positions, numeral equals x (x100, x1000) rounded half-even to the picture's fraction digits, mantissa x 10^exponent within half a last digit of x and inside the scaling range) — plus a list of pictures outside the grammar that must be rejected; every call runs in an isolated worker with a time limit; non-trivial = tie, negative, grouping, exponent or second sub-picture; distinct by (x, picture, options)")
	defer finish(t, rec)
	is := newIsolator()
	defer is.Close()
	// the invalid list once per run
	shard, _ := stats.Shard()
	if shard == 0 {
		for _, p := range c18InvalidPictures {
			for _, x := range []float64{20, -1.5, 0} {
				c := fmtCase{X: x, Invalid: p}
				if p == "" {
					c.Invalid = ""
					c.Pos = subPic{}
					continue
				}
				m, _ := fmtRun(is, c)
				rec.Case(fmt.Sprintf("invalid|%s|%v", p, x), true, func() interface{} { return map[string]interface{}{"expr": c.expr(), "x": x, "expect": "error"} })
				if m != "" && rec.FailNow(c, m) >= 8 {
					return
				}
			}
		}
		rec.Exhaustive("pictures_outside_the_grammar", len(c18InvalidPictures)*3)
		// two sub-pictures of which one is outside the grammar: the picture is
		// invalid whatever the sign of the number selects
		nsub := 0
		for _, p := range c18InvalidPictures {
			if p == "" || strings.Contains(p, ";") {
				continue
			}
			for _, valid := range []string{"0.00", "#,##0", "(0.0)"} {
				for _, pic := range []string{valid + ";" + p, p + ";" + valid} {
					for _, x := range []float64{5, -5, 0, -0.25} {
						c := fmtCase{X: x, Invalid: pic}
						m, _ := fmtRun(is, c)
						nsub++
						rec.Case(fmt.Sprintf("invalid-sub|%s|%v", pic, x), true, func() interface{} { return map[string]interface{}{"expr": c.expr(), "x": x, "expect": "error"} })
						if m != "" && rec.FailNow(c, m) >= 8 {
							return
						}
					}
				}
			}
		}
		rec.Exhaustive("one_invalid_sub_picture", nsub)
	}
	var hg hangGuard
	rapidRun(t, rec, 40000, 500000, func(rt *rapid.T) {
		if hg.tripped() {
			return
		}
		c := fmtCase{Pos: genSubPic(rt, "pos")}
		if rapid.IntRange(0, 3).Draw(rt, "second") == 0 {
			n := genSubPic(rt, "neg")
			c.Neg = &n
		}
		switch rapid.IntRange(0, 7).Draw(rt, "options") {
		case 0:
			c.Options = "swap"
		case 1:
			c.Options = "arabic"
		case 2:
			c.Options = "custom"
		case 3:
			c.Options = "minus"
		}
		if c.Options != "" {
			c.Warm = rapid.Bool().Draw(rt, "warm")
		}
		switch rapid.IntRange(0, 9).Draw(rt, "xkind") {
		case 0:
			c.X = float64(rapid.Int64Range(-100000000, 100000000).Draw(rt, "int"))
		case 1, 2, 3:
			d := rapid.IntRange(0, 6).Draw(rt, "digits")
			n := rapid.Int64Range(-99999999, 99999999).Draw(rt, "mant")
			c.X, _ = strconv.ParseFloat(fmt.Sprintf("%de-%d", n, d), 64)
		case 4: // ties
			d := rapid.IntRange(0, 4).Draw(rt, "tieDigits")
			k := rapid.Int64Range(-9999, 9999).Draw(rt, "tieK")
			c.X, _ = strconv.ParseFloat(fmt.Sprintf("%d5e-%d", k, d+1), 64)
		case 5:
			c.X = math.Pow(10, float64(rapid.IntRange(-9, 15).Draw(rt, "pow")))
		case 6:
			c.X = rapid.SampledFrom([]float64{0, math.Copysign(0, -1), 1, -1, 0.5, 9.995, 0.999, 999.9995, 1e-7, 123456789.125}).Draw(rt, "special")
		default:
			c.X = float64(rapid.Int64Range(-999999, 999999).Draw(rt, "m3")) / 1000
		}
		m, kind := fmtRun(is, c)
		nt := c.X < 0 || c.Neg != nil || c.Pos.Exp != "" || strings.Contains(c.Pos.Int+c.Pos.Frac, ",")
		rec.Case(fmt.Sprintf("%v|%s|%s", c.X, c.picture(), c.Options), nt, func() interface{} { return map[string]interface{}{"expr": c.expr(), "x": c.X} })
		rec.Class("outcome_" + kind)
		if c.Pos.Exp != "" {
			rec.Class("exponent_picture")
		}
		if strings.Contains(c.Pos.Int+c.Pos.Frac, ",") {
			rec.Class("grouping")
		}
		if c.Neg != nil {
			rec.Class("two_subpictures")
		}
		if kind == "inconclusive" {
			rec.Inconclusive()
		}
		hg.fail(rt, rec, c, m, "")
	})
}
