//go:build verif

package checks

import (
	jsonata "github.com/blues/jsonata-go"
	"github.com/blues/jsonata-go/jparse"
)

// exprRoot uses the build-tag-guarded accessor in /repo (verif_hooks.go).
func exprRoot(e *jsonata.Expr) jparse.Node { return jsonata.VerifRoot(e) }

const haveRootHook = true
