package checks

// C12, "a function value keeps the bindings and context item of its
// definition site": lambdas - with no signature, with a plain signature and
// with a signature whose first parameter is context-substituted ('-') - whose
// bodies read the context item (a member name, $, a context-defaulting
// built-in, the root) are defined under one context and called under others:
// in path steps, predicates, higher-order built-ins, other lambdas, partials
// and chains, several calls after one another through the same function value.

import (
	"fmt"
	"testing"

	"pgregory.net/rapid"

	"verif/harness/internal/ast"
	"verif/harness/internal/val"
)

func init() {
	registerReplay("TestC12_DefinitionContext", diffReplay)
	registerReplay("TestC12_ShadowedBuiltins", diffReplay)
}

// TestC12_ShadowedBuiltins: a built-in's name is a variable like any other: a
// block assignment or a parameter of that name shadows it for calls, chains,
// partials and bare references inside the scope, and not outside it.
func TestC12_ShadowedBuiltins(t *testing.T) {
	rec := begin(t, "C12", "rapid: the names of 12 built-ins rebound by a block assignment or a lambda parameter (to lambdas of 0..2 parameters and to non-functions), then used in call position, through ~> with and without further arguments, as a partial application, as a bare value handed to $map, in a nested block that rebinds again, and after the scope has ended (where the built-in is visible again); oracle = reference evaluator (lexical lookup for every name); non-trivial = all; distinct by program text")
	defer finish(t, rec)
	doc := val.MustJSON(`{"xs":[3,4],"s":"str"}`)
	names := []string{"sum", "count", "uppercase", "string", "length", "max", "exists", "not", "type", "boolean", "append", "substring"}
	rapidRun(t, rec, 8000, 120000, func(rt *rapid.T) {
		f := rapid.SampledFrom(names).Draw(rt, "builtin")
		fv := func() *ast.Node { return ast.VarN(f) }
		arg := func() *ast.Node {
			return rapid.SampledFrom([]*ast.Node{ast.ArrN(ast.NumN(1), ast.NumN(2)), ast.StrN("ab"), ast.NameN("xs"), ast.NameN("s"), ast.N(ast.Obj, ast.StrN("k"), ast.NumN(1))}).Draw(rt, "arg").Clone()
		}
		newVal := func() *ast.Node {
			switch rapid.IntRange(0, 4).Draw(rt, "bound") {
			case 0:
				return ast.LambdaN([]string{"x"}, "", ast.ArrN(ast.StrN("mine"), ast.VarN("x")))
			case 1:
				return ast.LambdaN([]string{"v", "w"}, "", ast.ArrN(ast.StrN("two"), ast.VarN("v"), ast.VarN("w")))
			case 2:
				return ast.LambdaN(nil, "", ast.StrN("none"))
			case 3:
				return ast.VarN(rapid.SampledFrom([]string{"count", "string", "type"}).Draw(rt, "otherBuiltin"))
			}
			return ast.NumN(7)
		}
		use := func() *ast.Node {
			switch rapid.IntRange(0, 6).Draw(rt, "use") {
			case 0:
				return ast.CallE(fv(), arg())
			case 1:
				return ast.N(ast.Chain, arg(), ast.CallE(fv(), ast.NumN(2)))
			case 2:
				return ast.N(ast.Chain, arg(), fv())
			case 3:
				return ast.CallE(&ast.Node{K: ast.Partial, C: []*ast.Node{fv(), ast.N(ast.Hole)}}, arg())
			case 4:
				return ast.CallN("map", ast.ArrN(ast.ArrN(ast.NumN(1)), ast.StrN("q")), fv())
			case 5:
				return ast.CallE(fv())
			}
			return ast.CallN("type", fv())
		}
		var prog *ast.Node
		switch rapid.IntRange(0, 4).Draw(rt, "scope") {
		case 0:
			prog = ast.BlockN(assign(f, newVal()), use())
		case 1: // as a parameter
			prog = ast.CallE(ast.LambdaN([]string{f}, "", use()), newVal())
		case 2: // rebound again in an inner block; the outer binding is back afterwards
			prog = ast.BlockN(assign(f, newVal()), ast.ArrN(ast.BlockN(assign(f, newVal()), use()), use()))
		case 3: // the built-in is visible again after the block
			prog = ast.ArrN(ast.BlockN(assign(f, newVal()), use()), use())
		default: // inside a callback, once per item
			prog = ast.CallN("map", ast.ArrN(ast.NumN(1), ast.NumN(2)), ast.LambdaN([]string{"i"}, "", ast.BlockN(assign(f, newVal()), use())))
		}
		c := mkDiff(prog, doc, true)
		p, r, m, skip := diffRun(c)
		if skip {
			rec.Class("skipped_" + r.Why)
			return
		}
		rec.Case(c.Text, true, diffSample(c, p))
		rec.Class("outcome_" + p.Kind + "_" + p.Err)
		if m != "" && rec.Fail(c, m) {
			rt.Fatalf("%s\n  expr: %s", m, c.Text)
		}
	})
}

var c12DefDoc = `{"name":"top","n":1,"items":[{"name":"a","n":2,"sub":[{"name":"aa","n":3}]},{"name":"b","n":4,"sub":[{"name":"bb","n":5},{"name":"bc","n":6}]}],"other":{"name":"o","n":7}}`

func TestC12_DefinitionContext(t *testing.T) {
	rec := begin(t, "C12", "rapid: one-parameter lambdas without a signature, with plain signatures and with a context-substituted first parameter (<n-:s>, <x-:x>, <j-x?:x>, <o-:x> ...), bodies reading the context item (member, $, context-defaulting built-in, root, member of a captured variable), defined at the top level or inside a path step and called under other contexts (path steps one and two levels down, predicates, $map/$filter/$reduce callbacks, inside another lambda, through a partial, through a chain, with and without arguments), 1..3 calls in sequence through the same function value; oracle = reference evaluator (body context = definition site); non-trivial = the call-site context differs from the definition-site context; distinct by program text")
	defer finish(t, rec)
	doc := val.MustJSON(c12DefDoc)
	sigs := []string{"", "", "n-:s", "x-:x", "j-:x", "n-x?:x", "x-x?", "n:x", "x:x", "o-:x", "s-:x", "(ns)-:x", "n-"}
	x := func() *ast.Node { return ast.VarN("x") }
	bodies := []func() *ast.Node{
		func() *ast.Node { return ast.NameN("name") },
		func() *ast.Node { return ast.BinN("&", ast.CallN("string", x()), ast.NameN("name")) },
		func() *ast.Node { return ast.ArrN(x(), ast.NameN("name")) },
		func() *ast.Node { return ast.PathN(ast.VarN(""), ast.NameN("name")) },
		func() *ast.Node { return ast.BinN("&", ast.PathN(ast.VarN("$"), ast.NameN("name")), ast.NameN("name")) },
		func() *ast.Node { return ast.CallN("string", ast.NameN("n")) },
		func() *ast.Node { return ast.PathN(ast.NameN("name"), ast.CallN("uppercase")) },
		func() *ast.Node { return ast.CallN("count", ast.NameN("sub")) },
		func() *ast.Node { return ast.BinN("+", ast.NameN("n"), ast.NumN(100)) },
		func() *ast.Node { return ast.ArrN(ast.CallN("type", x()), ast.CallN("count", ast.CallN("keys"))) },
		func() *ast.Node { return ast.ArrN(ast.NameN("name"), ast.PathN(ast.VarN("outer"), ast.NameN("name"))) },
		func() *ast.Node { return ast.CallN("exists", ast.NameN("items")) },
	}
	f := func() *ast.Node { return ast.VarN("f") }
	num := func(rt *rapid.T) *ast.Node { return ast.NumN(float64(rapid.IntRange(0, 9).Draw(rt, "arg"))) }
	// call sites; each returns the expression and whether its context differs
	// from a top-level definition site
	sites := []func(rt *rapid.T) (*ast.Node, bool){
		func(rt *rapid.T) (*ast.Node, bool) { return ast.CallE(f(), num(rt)), false },
		func(rt *rapid.T) (*ast.Node, bool) { return ast.PathN(ast.NameN("items"), ast.CallE(f(), num(rt))), true },
		func(rt *rapid.T) (*ast.Node, bool) { return ast.PathN(ast.NameN("items"), ast.CallE(f())), true },
		func(rt *rapid.T) (*ast.Node, bool) {
			return ast.PathN(ast.NameN("items"), ast.NameN("sub"), ast.CallE(f(), num(rt))), true
		},
		func(rt *rapid.T) (*ast.Node, bool) {
			return ast.PathN(ast.PredN(ast.NameN("items"), ast.NumN(1)), ast.CallE(f(), num(rt))), true
		},
		func(rt *rapid.T) (*ast.Node, bool) {
			return ast.PathN(ast.NameN("other"), ast.CallE(f(), ast.NameN("n"))), true
		},
		func(rt *rapid.T) (*ast.Node, bool) {
			return ast.PathN(ast.PredN(ast.NameN("items"), ast.BinN("!=", ast.CallE(f(), num(rt)), ast.StrN("zz"))), ast.NameN("name")), true
		},
		func(rt *rapid.T) (*ast.Node, bool) {
			return ast.CallN("map", ast.ArrN(ast.NumN(7), ast.NumN(8)), f()), false
		},
		func(rt *rapid.T) (*ast.Node, bool) {
			return ast.PathN(ast.NameN("items"), ast.CallN("map", ast.ArrN(ast.NumN(7)), f())), true
		},
		func(rt *rapid.T) (*ast.Node, bool) {
			return ast.PathN(ast.NameN("other"), ast.CallN("filter", ast.ArrN(ast.NumN(1), ast.NumN(2)), ast.LambdaN([]string{"v"}, "", ast.BinN("!=", ast.CallE(f(), ast.VarN("v")), ast.StrN("zz"))))), true
		},
		func(rt *rapid.T) (*ast.Node, bool) {
			return ast.PathN(ast.NameN("items"), ast.N(ast.Chain, num(rt), f())), true
		},
		func(rt *rapid.T) (*ast.Node, bool) {
			return ast.PathN(ast.NameN("items"), ast.N(ast.Chain, ast.NameN("n"), f())), true
		},
		func(rt *rapid.T) (*ast.Node, bool) {
			return ast.BlockN(assign("g", &ast.Node{K: ast.Partial, C: []*ast.Node{f(), ast.N(ast.Hole)}}), ast.PathN(ast.NameN("items"), ast.CallE(ast.VarN("g"), num(rt)))), true
		},
		func(rt *rapid.T) (*ast.Node, bool) {
			return ast.PathN(ast.NameN("items"), ast.CallE(ast.BlockN(ast.LambdaN([]string{"y"}, "", ast.CallE(f(), ast.VarN("y")))), num(rt))), true
		},
		func(rt *rapid.T) (*ast.Node, bool) {
			return ast.PathN(ast.NameN("other"), ast.BlockN(assign("h", ast.LambdaN([]string{"y"}, "n-:x",ast.ArrN(ast.NameN("name"), ast.CallE(f(), ast.VarN("y"))))), ast.PathN(ast.VarN("$"), ast.NameN("items"), ast.CallE(ast.VarN("h"), num(rt))))), true
		},
		func(rt *rapid.T) (*ast.Node, bool) {
			return ast.CallN("reduce", ast.ArrN(ast.NumN(1), ast.NumN(2), ast.NumN(3)), ast.LambdaN([]string{"acc", "v"}, "", ast.BinN("&", ast.CallN("string", ast.VarN("acc")), ast.CallN("string", ast.CallE(f(), ast.VarN("v")))))), false
		},
	}
	rapidRun(t, rec, 20000, 300000, func(rt *rapid.T) {
		sig := rapid.SampledFrom(sigs).Draw(rt, "sig")
		body := bodies[rapid.IntRange(0, len(bodies)-1).Draw(rt, "body")]()
		params := []string{"x"}
		if sig == "n-x?:x" || sig == "x-x?" {
			params = []string{"x", "y"}
		}
		lam := ast.LambdaN(params, sig, body)
		ncalls := rapid.IntRange(1, 3).Draw(rt, "ncalls")
		var calls []*ast.Node
		differs := false
		for i := 0; i < ncalls; i++ {
			e, d := sites[rapid.IntRange(0, len(sites)-1).Draw(rt, "site")](rt)
			calls = append(calls, e)
			differs = differs || d
		}
		use := ast.ArrN(calls...)
		if ncalls == 1 && rapid.Bool().Draw(rt, "bare") {
			use = calls[0]
		}
		inner := ast.BlockN(assign("outer", ast.PathN(ast.VarN("$"), ast.NameN("other"))), assign("f", lam), use)
		prog := inner
		switch rapid.IntRange(0, 3).Draw(rt, "defSite") {
		case 1: // defined inside a path step: calls see $$.items etc. only through the root
			prog = ast.PathN(ast.NameN("other"), ast.BlockN(assign("outer", ast.VarN("$")), assign("f", lam), ast.PathN(ast.VarN("$"), use.Clone())))
			differs = true
		case 2: // defined under each item, called there and below
			prog = ast.PathN(ast.NameN("items"), ast.BlockN(assign("outer", ast.PathN(ast.VarN("$"), ast.NameN("other"))), assign("f", lam), ast.ArrN(ast.CallE(f(), ast.NumN(1)), ast.PathN(ast.NameN("sub"), ast.CallE(f(), ast.NameN("n"))), ast.PathN(ast.VarN("$"), ast.NameN("other"), ast.CallE(f())))))
			differs = true
		}
		c := mkDiff(prog, doc, true)
		p, r, m, skip := diffRun(c)
		if skip {
			rec.Class("skipped_" + r.Why)
			return
		}
		rec.Case(c.Text, differs, diffSample(c, p))
		rec.Class("outcome_" + p.Kind + "_" + p.Err)
		if sig != "" {
			rec.Class("typed")
		}
		if m != "" && rec.Fail(c, m) {
			rt.Fatalf("%s\n  expr: %s", m, c.Text)
		}
	})
	_ = fmt.Sprint
}
