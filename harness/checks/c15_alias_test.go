package checks

// C15, value semantics of the array functions: a result bound to a variable is
// a value. Deriving two different arrays from it ($append twice, $reverse and
// $append, ...) must give the two values the statement defines, and the bound
// value itself must stay what it was - whatever spare capacity or shared
// backing store the implementation has underneath.

import (
	"testing"

	"pgregory.net/rapid"

	"verif/harness/internal/ast"
	"verif/harness/internal/val"
)

func init() {
	registerReplay("TestC15_Derived", diffReplay)
}

// TestC15_Derived: programs of the form
//
//	($x := <array function result>; $a := D1($x); $b := D2($x); {"x": $x, "a": $a, "b": $b, "x2": $x})
func TestC15_Derived(t *testing.T) {
	rec := begin(t, "C15", "rapid: an array-function result ($append, $map, $filter, $reverse, $sort, $distinct, $zip, a range, a literal, an input member, nested $append chains) bound to a variable, from which 2..3 further arrays are derived ($append of different members, $reverse, $map, $filter, $distinct, $sort, $zip, $reduce with $append) before any of them is read; all values are then returned; oracle = reference evaluator (values are immutable there); non-trivial = >= 2 derivations from one base of >= 1 member; distinct by program text")
	defer finish(t, rec)
	doc := val.MustJSON(`{"arr":[3,1,2],"objs":[{"a":1},{"a":2}],"n":7,"one":[5]}`)
	num := func(rt *rapid.T, l string) *ast.Node { return ast.NumN(float64(rapid.IntRange(0, 9).Draw(rt, l))) }
	base := func(rt *rapid.T) *ast.Node {
		switch rapid.IntRange(0, 11).Draw(rt, "base") {
		case 0:
			return ast.CallN("append", ast.ArrN(ast.NumN(1), ast.NumN(2)), ast.ArrN(ast.NumN(3)))
		case 1:
			return ast.CallN("append", ast.NameN("arr"), num(rt, "m"))
		case 2:
			return ast.CallN("map", ast.NameN("arr"), lam([]string{"v"}, ast.BinN("*", ast.VarN("v"), ast.NumN(2))))
		case 3:
			return ast.CallN("filter", ast.NameN("arr"), lam([]string{"v"}, ast.BinN(">", ast.VarN("v"), ast.NumN(1))))
		case 4:
			return ast.CallN("reverse", ast.NameN("arr"))
		case 5:
			return ast.CallN("sort", ast.NameN("arr"))
		case 6:
			return ast.CallN("distinct", ast.ArrN(ast.NumN(1), ast.NumN(1), ast.NumN(2)))
		case 7:
			return ast.ArrN(ast.N(ast.Range, ast.NumN(1), num(rt, "hi")))
		case 8:
			return ast.NameN("arr")
		case 9:
			return ast.CallN("append", ast.CallN("append", ast.ArrN(), num(rt, "m1")), num(rt, "m2"))
		case 10:
			return ast.NameN("objs")
		}
		return ast.CallN("reduce", ast.ArrN(ast.ArrN(ast.NumN(1)), ast.ArrN(ast.NumN(2)), ast.ArrN(ast.NumN(3))), ast.VarN("append"))
	}
	derive := func(rt *rapid.T, x *ast.Node, l string) *ast.Node {
		switch rapid.IntRange(0, 9).Draw(rt, l) {
		case 0, 1, 2:
			return ast.CallN("append", x, num(rt, l+"v"))
		case 3:
			return ast.CallN("append", x, ast.ArrN(num(rt, l+"v1"), num(rt, l+"v2")))
		case 4:
			return ast.CallN("reverse", x)
		case 5:
			return ast.CallN("map", x, lam([]string{"v"}, ast.ArrN(ast.VarN("v"))))
		case 6:
			return ast.CallN("append", ast.CallN("append", x, num(rt, l+"w1")), num(rt, l+"w2"))
		case 7:
			return ast.CallN("zip", x, x.Clone())
		case 8:
			return ast.CallN("reduce", ast.ArrN(x, ast.ArrN(num(rt, l+"r"))), ast.VarN("append"))
		}
		return ast.CallN("filter", x, lam([]string{"v", "i"}, ast.BinN("!=", ast.VarN("i"), ast.NumN(0))))
	}
	rapidRun(t, rec, 8000, 120000, func(rt *rapid.T) {
		x := ast.VarN("x")
		stmts := []*ast.Node{assign("x", base(rt))}
		names := []string{"a", "b", "c"}
		n := rapid.IntRange(2, 3).Draw(rt, "derivations")
		pairs := []*ast.Node{ast.StrN("x"), ast.VarN("x")}
		for i := 0; i < n; i++ {
			src := x
			if i > 0 && rapid.IntRange(0, 3).Draw(rt, "fromPrev") == 0 {
				src = ast.VarN(names[i-1]) // a derivation of a derivation
			}
			stmts = append(stmts, assign(names[i], derive(rt, src.Clone(), "d"+names[i])))
			pairs = append(pairs, ast.StrN(names[i]), ast.VarN(names[i]))
		}
		pairs = append(pairs, ast.StrN("x2"), ast.VarN("x"))
		stmts = append(stmts, ast.N(ast.Obj, pairs...))
		prog := ast.BlockN(stmts...)
		c := mkDiff(prog, doc, true)
		p, r, m, skip := diffRun(c)
		if skip {
			rec.Class("skipped_" + r.Why)
			return
		}
		rec.Case(c.Text, true, diffSample(c, p))
		rec.Class("outcome_" + p.Kind)
		if m != "" && rec.Fail(c, m) {
			rt.Fatalf("%s\n  expr: %s", m, c.Text)
		}
	})
}
