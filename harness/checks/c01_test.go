package checks

// C01 — Paths map over sequences, flatten one level, normalise empty/singleton
// results. Oracle: the reference evaluator (rules P1–P6 of DESIGN.md 2.3).

import (
	"fmt"
	"testing"

	"pgregory.net/rapid"

	"verif/harness/internal/ast"
	"verif/harness/internal/gen"
	"verif/harness/internal/port"
	"verif/harness/internal/ref"
	"verif/harness/internal/stats"
	"verif/harness/internal/val"
)

var c01Names = []string{"a", "b", "c"}

func init() {
	for _, n := range []string{"TestC01_Exhaustive", "TestC01_Random", "TestC01_Findings"} {
		registerReplay(n, diffReplay)
	}
}

func orderSensitive(prog *ast.Node) bool {
	return prog.Has(func(n *ast.Node) bool {
		return n.K == ast.Wild || n.K == ast.Desc || (n.K == ast.Var && (n.S == "keys" || n.S == "spread" || n.S == "each" || n.S == "sift"))
	})
}

func pathTraceNontrivial(tr ref.Trace) bool {
	return tr.MappedMany || tr.Flattened || tr.Dropped || tr.KeepMattered || tr.Anchored || tr.Shortcut || tr.ConsUnit
}

func recordTrace(rec *stats.Recorder, tr ref.Trace) {
	for name, on := range map[string]bool{
		"mapped_over_many": tr.MappedMany, "flattened": tr.Flattened, "dropped_absent": tr.Dropped,
		"keep_marker_mattered": tr.KeepMattered, "singleton_collapsed": tr.Singleton, "anchored_start": tr.Anchored,
		"last_step_single_array": tr.Shortcut, "constructor_step_unit": tr.ConsUnit,
	} {
		if on {
			rec.Class(name)
		}
	}
}

// the fixed document family of the exhaustive part: every nesting pattern of
// depth <= 3 of {object, array, array in array, missing member}
var c01Family = []string{
	`1`, `"s"`, `[]`, `{}`, `[1]`, `[1,2]`, `[[1]]`, `[[1,2],[3]]`, `[[[1]]]`,
	`{"a":1}`, `{"a":[1]}`, `{"a":[1,2]}`, `{"a":[]}`, `{"a":{}}`, `{"a":[[1],[2,3]]}`, `{"b":2}`,
	`{"a":{"b":1}}`, `{"a":{"b":[1]}}`, `{"a":{"b":[1,2]}}`, `{"a":{"a":{"a":1}}}`, `{"a":{"b":{"a":[1,2]}}}`,
	`{"a":[{"b":1}]}`, `{"a":[{"b":1},{"b":2}]}`, `{"a":[{"b":1},{"a":2}]}`, `{"a":[{"b":[1]},{"b":[2,3]}]}`,
	`{"a":[[{"b":1}]]}`, `{"a":[[{"b":1}],[{"b":2}]]}`, `{"a":[[[{"b":1}]]]}`, `{"a":[[{"b":[1,2]},{"b":[3]}]]}`,
	`{"a":[{"a":[{"a":1}]}]}`, `{"a":[1,[2,[3]]]}`, `{"a":[{"b":{"a":1}},{"b":{"a":[2,3]}}]}`,
	`[{"a":1}]`, `[{"a":1},{"a":2}]`, `[{"a":[1]},{"b":1}]`, `[[{"a":1}],[{"a":[2,3]}]]`, `[{"a":{"b":1}},{"a":{"b":[2]}}]`,
	`[{"a":[{"b":1},{"b":2}]},{"a":[{"b":3}]}]`, `[[[{"a":{"b":1}}]]]`, `[{"b":[{"a":1}]}]`,
	// one surviving item that is itself an array, next to siblings that
	// contribute an empty array or nothing
	`{"a":[[1,2]]}`, `{"a":[{"b":[[1,2]]},{"b":[]}]}`, `{"b":[{"a":[[1,2]]},{"a":[]}]}`, `[{"a":[[1,2]]},{"a":[]}]`,
	`{"a":{"a":[{"a":[]},{"a":[["x"]]},{"b":1}]}}`, `{"a":[[[1]],[]]}`, `{"a":[{"a":[[{"a":1}]]},{"a":[]},{"b":[[2]]}]}`,
}

func c01StepAlphabet() []func() *ast.Node {
	return []func() *ast.Node{
		func() *ast.Node { return ast.NameN("a") },
		func() *ast.Node { return ast.NameN("b") },
		func() *ast.Node { return ast.N(ast.Wild) },
		func() *ast.Node { return ast.N(ast.Desc) },
		func() *ast.Node { return ast.VarN("") },
		func() *ast.Node { return ast.BlockN(ast.NameN("a")) },
		func() *ast.Node { return ast.ArrN(ast.NameN("a")) },
		nil, // a[] : name a carrying the keep-array marker
	}
}

// TestC01_Exhaustive: every path of <= 3 steps over the step alphabet
// {a, b, *, **, $, (a), [a], a[]} on the fixed document family.
func TestC01_Exhaustive(t *testing.T) {
	rec := begin(t, "C01", "exhaustive: every path of 1..3 steps over the step alphabet {a, b, *, **, $, (a), [a], a[]} on a fixed family of 47 documents covering every nesting pattern of depth <= 3 of object / array / array-in-array / missing member, plus lone array-valued survivors next to empty-array and absent siblings (results compared as multisets when * or ** meets a multi-member object); non-trivial = the reference's path tracer saw mapping over >= 2 items, flattening, a dropped absent value, a keep-array effect, an anchored start, the last-step shortcut or a constructor-step unit; distinct by program + document")
	defer finish(t, rec)
	alpha := c01StepAlphabet()
	n := 0
	var steps []int
	var run func() bool
	run = func() bool {
		if len(steps) > 0 {
			p := ast.PathN()
			for i, s := range steps {
				if alpha[s] == nil {
					p.C = append(p.C, ast.NameN("a"))
					p.Keep = i + 1
				} else {
					p.C = append(p.C, alpha[s]())
				}
			}
			var prog *ast.Node = p
			if len(steps) == 1 && p.Keep == 0 {
				prog = p.C[0]
			}
			for di, d := range c01Family {
				dv := val.MustJSON(d)
				c := mkDiff(prog, dv, true)
				c.Unordered = orderSensitive(prog)
				pr, r, m, skip := diffRun(c)
				n++
				if skip {
					rec.Class("skipped")
					continue
				}
				rec.Case(fmt.Sprintf("%v|%d", steps, di), pathTraceNontrivial(r.Trace), diffSample(c, pr))
				recordTrace(rec, r.Trace)
				rec.Class("outcome_" + pr.Kind)
				if m != "" && rec.FailNow(c, m) >= 8 {
					return false
				}
			}
		}
		if len(steps) == 3 {
			return true
		}
		for s := range alpha {
			steps = append(steps, s)
			if !run() {
				return false
			}
			steps = steps[:len(steps)-1]
		}
		return true
	}
	run()
	rec.Exhaustive("paths_le3_steps_x_document_family", n)
	rec.AllExhaustive()
}

// ---- random part

type pathGen struct {
	vars []string
}

func (g *pathGen) name(t *rapid.T) *ast.Node {
	n := ast.NameN(rapid.SampledFrom([]string{"a", "b", "c", "a", "b", "zz"}).Draw(t, "name"))
	if rapid.IntRange(0, 9).Draw(t, "backquote") == 0 {
		n.B = true
	}
	return n
}

func (g *pathGen) step(t *rapid.T, depth int, first bool) *ast.Node {
	switch k := rapid.IntRange(0, 39).Draw(t, "stepKind"); {
	case k < 18:
		return g.name(t)
	case k < 21:
		return ast.N(ast.Wild)
	case k < 23:
		return ast.N(ast.Desc)
	case k < 25:
		return ast.VarN("")
	case k < 27:
		return ast.VarN("$")
	case k < 30:
		if len(g.vars) > 0 {
			return ast.VarN(rapid.SampledFrom(g.vars).Draw(t, "var"))
		}
		return g.name(t)
	case k < 33:
		if depth > 0 {
			return ast.BlockN(g.path(t, depth-1, 3))
		}
		return g.name(t)
	case k < 35:
		if depth > 0 {
			n := rapid.IntRange(1, 2).Draw(t, "arrItems")
			a := ast.ArrN()
			for i := 0; i < n; i++ {
				a.C = append(a.C, g.path(t, depth-1, 2))
			}
			return a
		}
		return ast.ArrN(g.name(t))
	case k < 36:
		if depth > 0 {
			return ast.N(ast.Obj, ast.StrN("k"), g.path(t, depth-1, 2))
		}
		return g.name(t)
	}
	switch rapid.IntRange(0, 5).Draw(t, "callStep") {
	case 0:
		return ast.CallN("string")
	case 1:
		return ast.CallN("count", ast.VarN(""))
	case 2:
		return ast.CallN("keys")
	case 3:
		return ast.CallN("type")
	case 4:
		return ast.CallN("sum", ast.VarN(""))
	}
	return ast.CallN("exists", ast.VarN(""))
}

func (g *pathGen) path(t *rapid.T, depth, maxSteps int) *ast.Node {
	n := rapid.IntRange(1, maxSteps).Draw(t, "nsteps")
	p := ast.PathN()
	for i := 0; i < n; i++ {
		p.C = append(p.C, g.step(t, depth, i == 0))
	}
	if rapid.IntRange(0, 4).Draw(t, "keep") == 0 {
		p.Keep = 1 + rapid.IntRange(0, n-1).Draw(t, "keepAt")
	}
	if n == 1 && p.Keep == 0 {
		return p.C[0]
	}
	return p
}

func genPathProgram() *rapid.Generator[*ast.Node] {
	return rapid.Custom(func(t *rapid.T) *ast.Node {
		g := &pathGen{}
		var binds []*ast.Node
		nb := rapid.IntRange(0, 2).Draw(t, "nbinds")
		for i := 0; i < nb; i++ {
			v := fmt.Sprintf("x%d", i)
			binds = append(binds, &ast.Node{K: ast.Assign, S: v, C: []*ast.Node{g.path(t, 1, 2)}})
			g.vars = append(g.vars, v)
		}
		p := g.path(t, 2, 5)
		switch rapid.IntRange(0, 9).Draw(t, "wrap") {
		case 0:
			p = ast.ArrN(p, g.path(t, 1, 3))
		case 1:
			p = ast.CallN("count", p)
		case 2:
			p = ast.N(ast.Obj, ast.StrN("r"), p)
		}
		if len(binds) > 0 {
			return ast.BlockN(append(binds, p)...)
		}
		return p
	})
}

// TestC01_Random: generated path programs over generated null-free documents.
func TestC01_Random(t *testing.T) {
	rec := begin(t, "C01", "rapid: paths of 1..5 steps over names (present, absent, back-quoted), *, **, $, $$, variables bound in an enclosing block, parenthesised sub-paths, array- and object-constructor steps, function-call steps, with and without [] at every step position, optionally wrapped in a constructor or $count; null-free generated documents (depth <= 4, width <= 4, arrays nested in arrays with probability 0 or 0.3, top-level arrays and scalars; single-member objects whenever the program contains *, ** or $keys); same non-triviality rule as the exhaustive part; distinct by program text + document")
	defer finish(t, rec)
	progs := genPathProgram()
	multi := []*rapid.Generator[val.Value]{
		gen.Doc(gen.DocOpts{NullFree: true, Names: c01Names, NestedArrays: 0}),
		gen.Doc(gen.DocOpts{NullFree: true, Names: c01Names, NestedArrays: 0.3}),
	}
	single := []*rapid.Generator[val.Value]{
		gen.Doc(gen.DocOpts{NullFree: true, Names: c01Names, NestedArrays: 0, SingleMember: true}),
		gen.Doc(gen.DocOpts{NullFree: true, Names: c01Names, NestedArrays: 0.3, SingleMember: true}),
	}
	rapidRun(t, rec, 40000, 500000, func(rt *rapid.T) {
		prog := progs.Draw(rt, "prog")
		pool := multi
		if orderSensitive(prog) {
			pool = single
		}
		doc := pool[rapid.IntRange(0, 1).Draw(rt, "nestMode")].Draw(rt, "doc")
		c := mkDiff(prog, doc, true)
		p, r, m, skip := diffRun(c)
		if skip {
			rec.Class("skipped_" + r.Why)
			return
		}
		ds := gen.Measure(doc)
		rec.Case(c.Text+"|"+c.Input, pathTraceNontrivial(r.Trace), diffSample(c, p))
		recordTrace(rec, r.Trace)
		rec.Class("outcome_" + p.Kind)
		if ds.ArrayInArray {
			rec.Class("doc_array_in_array")
		}
		if m != "" && rec.Fail(c, m) {
			rt.Fatalf("%s\n  expr: %s\n  input: %s", m, c.Text, c.Input)
		}
	})
	n := rec.Evaluations()
	if n > 2000 {
		if rec.ClassCount("outcome_"+port.KValue)*100 < n*20 {
			rec.Fatal("generator regression: fewer than 20% of path programs yield a value")
		}
		if rec.ClassCount("flattened")*100 < n*2 || rec.ClassCount("mapped_over_many")*100 < n*5 {
			rec.Fatal("generator regression: flattening / mapping classes are below their floors")
		}
	}
}
