package checks

// C02 — Predicates filter by truth value or select by position, per context
// item. Oracle: the reference evaluator's predicate rules (stacked on name
// steps, nested on other heads), plus direct positional post-conditions in the
// exhaustive part.

import (
	"strings"
	"fmt"
	"math"
	"testing"

	"pgregory.net/rapid"

	"verif/harness/internal/ast"
	"verif/harness/internal/gen"
	"verif/harness/internal/port"
	"verif/harness/internal/ref"
	"verif/harness/internal/val"
)

func init() {
	for _, n := range []string{"TestC02_Positions", "TestC02_Random", "TestC02_Findings"} {
		registerReplay(n, diffReplay)
	}
}

func predTraceNontrivial(tr ref.Trace) bool {
	return (tr.FilterMany && tr.FilterSubset) || tr.FilterIndex || tr.FilterSecond
}

// expectedAt is the direct statement of the positional rule, independent of
// the reference evaluator: the items at positions floor(n), negative positions
// counting back from the end, out-of-range positions selecting nothing.
func expectedAt(items []val.Value, positions []float64) val.Value {
	var out []val.Value
	for i := range items {
		for _, p := range positions {
			idx := int(math.Floor(p))
			if idx < 0 {
				idx += len(items)
			}
			if idx == i {
				out = append(out, items[i])
			}
		}
	}
	switch len(out) {
	case 0:
		return val.U
	case 1:
		return out[0]
	}
	return val.A(out...)
}

// TestC02_Positions: array lengths 0..5 x positions -7..7 in steps of 0.5 x
// head kinds x index supply modes, and all index arrays of length 2 over -3..3.
func TestC02_Positions(t *testing.T) {
	rec := begin(t, "C02", "exhaustive: array lengths 0..5 x positions -7..7 in steps of 0.5 x head kinds {name step in a path, variable, array constructor, parenthesised path} x {literal index, index read from the document, single-element index array, index computed by $count / $length (Go integers inside the library)}, plus every index array of length 2 over -3..3 (literal and read from the document); checked against the reference evaluator AND against a direct statement of the positional rule; every case is non-trivial; distinct by (length, position(s), head, supply mode)")
	defer finish(t, rec)
	n := 0
	check := func(prog *ast.Node, doc val.Value, key string, items []val.Value, positions []float64) bool {
		c := mkDiff(prog, doc, true)
		p, r, m, skip := diffRun(c)
		n++
		if skip {
			rec.Class("skipped")
			return true
		}
		rec.Case(key, true, diffSample(c, p))
		rec.Class("outcome_" + p.Kind)
		if m == "" {
			// direct post-condition
			want := expectedAt(items, positions)
			switch {
			case want.IsUndef() && p.Kind != port.KUndefined:
				m = fmt.Sprintf("positions %v of %d items select nothing, but the library gives %s", positions, len(items), p.String())
			case !want.IsUndef() && !(p.Kind == port.KValue && val.Equal(p.Val, want)):
				m = fmt.Sprintf("positions %v of %d items select %s, but the library gives %s (reference agreed with the library: %s)", positions, len(items), val.Canon(want), p.String(), r.String())
			}
		}
		if m != "" && rec.FailNow(c, m) >= 8 {
			return false
		}
		return true
	}
	heads := []string{"name", "var", "cons", "paren"}
	mkHead := func(kind string, items []val.Value) (*ast.Node, func(*ast.Node) *ast.Node) {
		// returns the head expression and a wrapper for the whole program
		id := func(p *ast.Node) *ast.Node { return p }
		switch kind {
		case "name":
			return ast.NameN("x"), id
		case "var":
			return ast.VarN("v"), func(p *ast.Node) *ast.Node {
				return ast.BlockN(&ast.Node{K: ast.Assign, S: "v", C: []*ast.Node{ast.NameN("x")}}, p)
			}
		case "cons":
			a := ast.ArrN()
			for _, it := range items {
				a.C = append(a.C, jsonLit(it))
			}
			return a, id
		}
		return ast.BlockN(ast.NameN("x")), id
	}
	for length := 0; length <= 5; length++ {
		items := make([]val.Value, length)
		for i := range items {
			items[i] = val.N(float64(10 * (i + 1)))
		}
		for pos := -7.0; pos <= 7.0; pos += 0.5 {
			for _, hk := range heads {
				for _, mode := range []string{"literal", "doc", "array1", "count", "length", "countArray"} {
					doc := val.O(map[string]val.Value{"x": val.A(items...), "i": val.N(pos)})
					head, wrap := mkHead(hk, items)
					var idx *ast.Node
					switch mode {
					case "literal":
						idx = ast.NumN(pos)
					case "doc":
						idx = ast.PathN(ast.VarN("$"), ast.NameN("i"))
					case "count", "length", "countArray":
						// an index computed by a built-in (a Go integer inside the library)
						if pos < 0 || pos != math.Floor(pos) {
							continue
						}
						cs := make([]val.Value, int(pos))
						for i := range cs {
							cs[i] = val.N(1)
						}
						doc.O["c"] = val.A(cs...)
						doc.O["s"] = val.S(strings.Repeat("é", int(pos)))
						switch mode {
						case "count":
							idx = ast.CallN("count", ast.PathN(ast.VarN("$"), ast.NameN("c")))
						case "length":
							idx = ast.CallN("length", ast.PathN(ast.VarN("$"), ast.NameN("s")))
						default:
							idx = ast.ArrN(ast.CallN("count", ast.PathN(ast.VarN("$"), ast.NameN("c"))))
						}
					default:
						idx = ast.ArrN(ast.NumN(pos))
					}
					prog := wrap(ast.PredN(head, idx))
					want := items
					if hk == "name" && length == 0 {
						want = nil
					}
					if !check(prog, doc, fmt.Sprintf("%d|%v|%s|%s", length, pos, hk, mode), want, []float64{pos}) {
						return
					}
				}
			}
		}
	}
	// index arrays of length 2
	for length := 0; length <= 4; length++ {
		items := make([]val.Value, length)
		for i := range items {
			items[i] = val.S(fmt.Sprintf("e%d", i))
		}
		for p1 := -3.0; p1 <= 3; p1++ {
			for p2 := -3.0; p2 <= 3; p2++ {
				doc := val.O(map[string]val.Value{"x": val.A(items...), "idx": val.A(val.N(p1), val.N(p2))})
				lit := ast.PredN(ast.NameN("x"), ast.ArrN(ast.NumN(p1), ast.NumN(p2)))
				if !check(lit, doc, fmt.Sprintf("%d|[%v,%v]|literal", length, p1, p2), items, []float64{p1, p2}) {
					return
				}
				fromDoc := ast.PredN(ast.NameN("x"), ast.PathN(ast.VarN("$"), ast.NameN("idx")))
				if !check(fromDoc, doc, fmt.Sprintf("%d|[%v,%v]|doc", length, p1, p2), items, []float64{p1, p2}) {
					return
				}
			}
		}
	}
	// a truth-value predicate followed by an index array with repeated, negative
	// and fractional positions: the second predicate works on the survivors
	for length := 2; length <= 5; length++ {
		items := make([]val.Value, length)
		for i := range items {
			items[i] = val.N(float64(10 * (i + 1)))
		}
		survivors := items[1:] // $ > 10
		for _, idx := range [][]float64{{0, 0, 1}, {0, 0}, {1, 1, 0}, {0, 1, 1, 2}, {-1, -1}, {0, -1, 0}, {0.5, 0, 1.5}, {2, 0, 2}, {0, 0, 0, 0}, {1, 0}, {-2, 0, -2}} {
			arr := ast.ArrN()
			for _, p := range idx {
				arr.C = append(arr.C, ast.NumN(p))
			}
			doc := val.O(map[string]val.Value{"x": val.A(items...)})
			for _, hk := range []string{"name", "paren"} {
				var head *ast.Node = ast.NameN("x")
				if hk == "paren" {
					head = ast.BlockN(ast.NameN("x"))
				}
				prog := ast.PredN(ast.PredN(head, ast.BinN(">", ast.VarN(""), ast.NumN(10))), arr)
				if !check(prog, doc, fmt.Sprintf("stacked|%d|%v|%s", length, idx, hk), survivors, idx) {
					return
				}
			}
		}
	}
	// the bare context item as predicate: each item decides for itself
	for _, items := range [][]val.Value{
		{val.True, val.False, val.True}, {val.False, val.True}, {val.S(""), val.S("x"), val.S(""), val.S("y")}, {val.S("x"), val.S("")},
		{val.N(3), val.N(1), val.N(0), val.N(3)}, {val.N(0), val.N(0)}, {val.N(1), val.N(1)}, {val.True, val.S(""), val.S("s"), val.False},
	} {
		doc := val.O(map[string]val.Value{"x": val.A(items...)})
		for _, prog := range []*ast.Node{ast.PredN(ast.NameN("x"), ast.VarN("")), ast.PredN(ast.BlockN(ast.NameN("x")), ast.VarN("")), ast.PredN(ast.PathN(ast.VarN("$"), ast.NameN("x")), ast.VarN(""))} {
			c := mkDiff(prog, doc, true)
			p, r, m, skip := diffRun(c)
			n++
			if skip {
				continue
			}
			rec.Case("self|"+c.Text+"|"+c.Input, true, diffSample(c, p))
			_ = r
			if m != "" && rec.FailNow(c, m) >= 8 {
				return
			}
		}
	}
	rec.Exhaustive("positions_x_lengths_x_heads_x_modes", n)
	rec.AllExhaustive()
}

// ---- random part

type predGen struct{}

func (predGen) member(t *rapid.T) *ast.Node {
	return ast.NameN(rapid.SampledFrom([]string{"a", "b", "c", "zz"}).Draw(t, "member"))
}

func (g predGen) filter(t *rapid.T, depth int) *ast.Node {
	small := func() *ast.Node {
		return ast.NumN(rapid.SampledFrom([]float64{0, 1, 2, 0, 1, 2, 3, -1, 0.5}).Draw(t, "lit"))
	}
	switch k := rapid.IntRange(0, 29).Draw(t, "filterKind"); {
	case k < 6: // comparison on a member
		op := rapid.SampledFrom([]string{"=", "!=", "<", "<=", ">", ">="}).Draw(t, "cmp")
		return ast.BinN(op, g.member(t), small())
	case k < 8: // comparison on the item itself
		op := rapid.SampledFrom([]string{"=", "!=", "<", ">"}).Draw(t, "cmp")
		return ast.BinN(op, ast.VarN(""), small())
	case k < 10 && depth > 0:
		op := rapid.SampledFrom([]string{"and", "or"}).Draw(t, "bool")
		return ast.BinN(op, g.filter(t, depth-1), g.filter(t, depth-1))
	case k < 14: // numeric literal incl. negative, fractional, out of range
		return ast.NumN(rapid.SampledFrom([]float64{0, 1, 0, 1, -1, 2, 3, -2, -3, 0.5, 1.5, -0.5, -1.5, 7, -7, 2.999}).Draw(t, "idx"))
	case k < 16: // computed number
		switch rapid.IntRange(0, 2).Draw(t, "computed") {
		case 0:
			return ast.BinN("-", ast.CallN("count", ast.PathN(ast.VarN("$"), g.member(t))), ast.NumN(1))
		case 1:
			return g.member(t)
		}
		return ast.BinN("+", small(), small())
	case k < 18: // literal array of numbers
		n := rapid.IntRange(0, 3).Draw(t, "nidx")
		a := ast.ArrN()
		for i := 0; i < n; i++ {
			a.C = append(a.C, ast.NumN(rapid.SampledFrom([]float64{0, 1, 2, -1, -2, 0.5, 5}).Draw(t, "ai")))
		}
		return a
	case k < 20: // array taken from the document
		return ast.PathN(ast.VarN("$"), g.member(t))
	case k < 21: // mixed array
		return ast.ArrN(ast.NumN(0), ast.StrN("a"))
	case k < 22:
		return ast.StrN(rapid.SampledFrom([]string{"", "a"}).Draw(t, "s"))
	case k < 23:
		return ast.N(ast.Obj, ast.StrN("k"), ast.NumN(1))
	case k < 24:
		return ast.N(ast.Obj)
	case k < 25:
		return ast.BoolN(rapid.Bool().Draw(t, "b"))
	case k < 26:
		return ast.NameN("zz")
	case k < 27:
		return ast.CallN("exists", g.member(t))
	case k < 28:
		return ast.BinN("in", ast.VarN(""), ast.ArrN(small(), small()))
	}
	return g.member(t)
}

func (g predGen) filters(t *rapid.T) []*ast.Node {
	n := rapid.SampledFrom([]int{1, 1, 1, 1, 2, 2, 3}).Draw(t, "nfilters")
	fs := make([]*ast.Node, n)
	for i := range fs {
		fs[i] = g.filter(t, 1)
	}
	return fs
}

func (g predGen) program(t *rapid.T) *ast.Node {
	name := func() *ast.Node { return ast.NameN(rapid.SampledFrom([]string{"a", "b", "c"}).Draw(t, "n")) }
	fs := g.filters(t)
	switch rapid.IntRange(0, 13).Draw(t, "head") {
	case 0, 1, 2: // predicate on a step inside a path
		n := rapid.SampledFrom([]int{1, 1, 2, 2, 3}).Draw(t, "steps")
		at := rapid.IntRange(0, n-1).Draw(t, "at")
		p := ast.PathN()
		for i := 0; i < n; i++ {
			if i == at {
				p.C = append(p.C, ast.PredN(name(), fs...))
			} else if rapid.IntRange(0, 5).Draw(t, "predToo") == 0 {
				p.C = append(p.C, ast.PredN(name(), g.filter(t, 0)))
			} else {
				p.C = append(p.C, name())
			}
		}
		return p
	case 3: // parenthesised path
		return ast.PredN(ast.BlockN(ast.PathN(name(), name())), fs...)
	case 4:
		return ast.PredN(ast.BlockN(name()), fs...)
	case 5: // context
		return ast.PredN(ast.VarN(""), fs...)
	case 6: // variable
		return ast.BlockN(&ast.Node{K: ast.Assign, S: "v", C: []*ast.Node{ast.PathN(name(), name())}}, ast.PredN(ast.VarN("v"), fs...))
	case 7: // array constructor
		return ast.PredN(ast.ArrN(name(), name(), ast.NumN(1)), fs...)
	case 8: // range
		return ast.PredN(ast.ArrN(ast.N(ast.Range, ast.NumN(1), ast.NumN(float64(rapid.IntRange(0, 5).Draw(t, "hi"))))), fs...)
	case 9: // call
		return ast.PredN(ast.CallN("append", name(), name()), fs...)
	case 10: // wildcard (documents with single-member objects)
		return ast.PathN(name(), ast.PredN(ast.N(ast.Wild), fs...))
	case 11: // order-by result
		return ast.PredN(ast.BlockN(&ast.Node{K: ast.Sort, C: []*ast.Node{name(), ast.VarN("")}, Dirs: []string{"<"}}), fs...)
	case 12: // variable step in a path
		return ast.PathN(ast.PredN(ast.VarN("$"), fs[0]), name())
	}
	return ast.PredN(ast.BlockN(ast.PathN(name(), ast.PredN(name(), g.filter(t, 0)))), fs...)
}

// genPredDoc builds documents the predicate programs actually hit (construction
// instead of rejection): members a, b, c are arrays of small objects with
// members a, b, c over a tiny value domain, arrays of small numbers (usable as
// index arrays), numbers, objects, or arrays nested in arrays.
func genPredDoc(single bool) *rapid.Generator[val.Value] {
	num := func(t *rapid.T) val.Value {
		return val.N(rapid.SampledFrom([]float64{0, 1, 2, 0, 1, 2, 3, -1, 0.5}).Draw(t, "num"))
	}
	var item func(t *rapid.T, depth int) val.Value
	obj := func(t *rapid.T, depth int) val.Value {
		m := map[string]val.Value{}
		for _, k := range []string{"a", "b", "c"} {
			if single && len(m) == 1 {
				break
			}
			switch rapid.IntRange(0, 9).Draw(t, "memberKind") {
			case 0:
			case 3:
				m[k] = val.S(rapid.SampledFrom([]string{"", "a", "b"}).Draw(t, "str"))
			case 4:
				if depth > 0 {
					m[k] = item(t, depth-1)
				}
			default:
				m[k] = num(t)
			}
		}
		return val.O(m)
	}
	arr := func(t *rapid.T, depth int, of int) val.Value {
		n := rapid.IntRange(0, 5).Draw(t, "len")
		out := make([]val.Value, n)
		for i := range out {
			switch {
			case of == 0:
				out[i] = obj(t, depth)
			case of == 1:
				out[i] = num(t)
			default:
				out[i] = item(t, depth)
			}
		}
		return val.A(out...)
	}
	item = func(t *rapid.T, depth int) val.Value {
		switch k := rapid.IntRange(0, 19).Draw(t, "itemKind"); {
		case k < 9:
			return arr(t, depth, 0)
		case k < 13:
			return arr(t, depth, 1)
		case k < 15:
			return num(t)
		case k < 17:
			return obj(t, depth)
		case depth > 0:
			return arr(t, depth-1, 2)
		}
		return num(t)
	}
	return rapid.Custom(func(t *rapid.T) val.Value {
		if rapid.IntRange(0, 7).Draw(t, "topArray") == 0 {
			return arr(t, 2, 0)
		}
		m := map[string]val.Value{}
		for _, k := range []string{"a", "b", "c"} {
			if single && len(m) == 1 {
				break
			}
			if rapid.IntRange(0, 9).Draw(t, "present") > 0 {
				m[k] = item(t, 2)
			}
		}
		return val.O(m)
	})
}

// TestC02_Random: generated predicate programs over generated documents.
func TestC02_Random(t *testing.T) {
	rec := begin(t, "C02", "rapid: 1..3 stacked predicates (comparisons on members, and/or, numeric literals incl. negative/fractional/out-of-range, computed numbers, literal and document index arrays, mixed arrays, strings, objects, booleans, missing values) on every head kind (name step in 1..3-step paths, parenthesised paths, $, variables, array constructors, ranges, calls, wildcards, order-by results); null-free generated documents; non-trivial = a filter ran over >= 2 items and kept a strict non-empty subset, or the positional branch was taken, or a second filter ran on survivors; distinct by program text + document")
	defer finish(t, rec)
	g := predGen{}
	multi := rapid.OneOf(genPredDoc(false), genPredDoc(false), gen.Doc(gen.DocOpts{NullFree: true, Names: c01Names, NestedArrays: 0.15}))
	single := rapid.OneOf(genPredDoc(true), gen.Doc(gen.DocOpts{NullFree: true, Names: c01Names, NestedArrays: 0.15, SingleMember: true}))
	rapidRun(t, rec, 40000, 500000, func(rt *rapid.T) {
		prog := g.program(rt)
		docg := multi
		if orderSensitive(prog) {
			docg = single
		}
		doc := docg.Draw(rt, "doc")
		c := mkDiff(prog, doc, true)
		p, r, m, skip := diffRun(c)
		if skip {
			rec.Class("skipped_" + r.Why)
			return
		}
		rec.Case(c.Text+"|"+c.Input, predTraceNontrivial(r.Trace), diffSample(c, p))
		rec.Class("outcome_" + p.Kind)
		for name, on := range map[string]bool{"filter_over_many": r.Trace.FilterMany, "kept_strict_subset": r.Trace.FilterSubset, "positional_branch": r.Trace.FilterIndex, "second_filter_on_survivors": r.Trace.FilterSecond} {
			if on {
				rec.Class(name)
			}
		}
		if m != "" && rec.Fail(c, m) {
			rt.Fatalf("%s\n  expr: %s\n  input: %s", m, c.Text, c.Input)
		}
	})
	n := rec.Evaluations()
	if n > 2000 {
		if rec.ClassCount("positional_branch")*100 < n*5 || rec.ClassCount("kept_strict_subset")*100 < n*2 || rec.ClassCount("second_filter_on_survivors")*100 < n*2 {
			rec.Fatal("generator regression: predicate classes are below their floors")
		}
	}
}
