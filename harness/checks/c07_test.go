package checks

// C07 — Input documents are never modified; transform returns a modified copy.
// Oracles: (frame) a snapshot of the input and of every registered variable
// taken before Eval — canonical JSON plus the identity of every container —
// must be unchanged afterwards, for successful and failing evaluations alike;
// (functional) transform results against the reference evaluator.

import (
	"encoding/json"
	"fmt"
	"reflect"
	"strings"
	"testing"

	"pgregory.net/rapid"

	"verif/harness/internal/ast"
	"verif/harness/internal/gen"
	"verif/harness/internal/port"
	"verif/harness/internal/stats"
	"verif/harness/internal/val"
)

type c07Case struct {
	Text   string `json:"text"`
	Input  string `json:"input"`
	Var    string `json:"var"`    // JSON of the registered variable $rv ("" = none)
	Shared bool   `json:"shared"` // build the input with shared sub-structures
	Typed  bool   `json:"typed,omitempty"` // homogeneous arrays are []string / []float64 / []int
}

// toGoShared converts a value to Go data; with share, equal containers are
// represented by one and the same Go object (aliasing inside the input).
func toGoShared(v val.Value, share bool, memo map[string]interface{}) interface{} {
	switch v.K {
	case val.Arr, val.Obj:
		key := ""
		if share && (len(v.A) > 0 || len(v.O) > 0) {
			key = val.Canon(v)
			if g, ok := memo[key]; ok {
				return g
			}
		}
		var out interface{}
		if ts := typedSlice(v); c07Typed && ts != nil {
			out = ts
		} else if v.K == val.Arr {
			s := make([]interface{}, len(v.A))
			for i, e := range v.A {
				s[i] = toGoShared(e, share, memo)
			}
			out = s
		} else {
			m := make(map[string]interface{}, len(v.O))
			for k, e := range v.O {
				m[k] = toGoShared(e, share, memo)
			}
			out = m
		}
		if key != "" {
			memo[key] = out
		}
		return out
	}
	return val.ToGo(v)
}

// c07Typed (set per case by c07Run): homogeneous arrays of the caller's data
// are Go slices of a concrete element type ([]string, []float64, []int), as a
// Go program would naturally hold them, instead of []interface{}.
var c07Typed bool

func typedSlice(v val.Value) interface{} {
	if v.K != val.Arr || len(v.A) < 2 {
		return nil
	}
	allS, allN, allI := true, true, true
	for _, e := range v.A {
		allS = allS && e.K == val.Str
		allN = allN && e.K == val.Num
		allI = allI && e.K == val.Num && e.N == float64(int(e.N))
	}
	switch {
	case allS:
		out := make([]string, len(v.A))
		for i, e := range v.A {
			out[i] = e.S
		}
		return out
	case allI && len(v.A)%2 == 1:
		out := make([]int, len(v.A))
		for i, e := range v.A {
			out[i] = int(e.N)
		}
		return out
	case allN:
		out := make([]float64, len(v.A))
		for i, e := range v.A {
			out[i] = e.N
		}
		return out
	}
	return nil
}

type snapshot struct {
	text string
	ids  []uintptr
}

func takeSnapshot(x interface{}) snapshot {
	var s snapshot
	b, err := json.Marshal(x)
	if err != nil {
		s.text = "unmarshalable: " + err.Error()
	} else {
		s.text = string(b)
	}
	var walk func(x interface{}, depth int)
	walk = func(x interface{}, depth int) {
		if depth > 64 {
			return
		}
		switch t := x.(type) {
		case []interface{}:
			s.ids = append(s.ids, reflect.ValueOf(t).Pointer(), uintptr(len(t)))
			for _, e := range t {
				walk(e, depth+1)
			}
		case map[string]interface{}:
			s.ids = append(s.ids, reflect.ValueOf(t).Pointer(), uintptr(len(t)))
			keys := make([]string, 0, len(t))
			for k := range t {
				keys = append(keys, k)
			}
			sortStringsInPlace(keys)
			for _, k := range keys {
				walk(t[k], depth+1)
			}
		}
	}
	walk(x, 0)
	return s
}

func sortStringsInPlace(s []string) {
	for i := 1; i < len(s); i++ {
		for j := i; j > 0 && s[j] < s[j-1]; j-- {
			s[j], s[j-1] = s[j-1], s[j]
		}
	}
}

func (a snapshot) diff(b snapshot) string {
	if a.text != b.text {
		return fmt.Sprintf("was %s, is now %s", trunc(a.text, 300), trunc(b.text, 300))
	}
	if len(a.ids) != len(b.ids) {
		return "the container structure changed"
	}
	for i := range a.ids {
		if a.ids[i] != b.ids[i] {
			return "a container was replaced or resized in place"
		}
	}
	return ""
}

func trunc(s string, n int) string {
	if len(s) > n {
		return s[:n] + "…"
	}
	return s
}

func c07Run(c c07Case) (msg string, outcome string) {
	e, o := port.Compile(c.Text)
	if o != nil {
		return "", o.Kind
	}
	c07Typed = c.Typed
	defer func() { c07Typed = false }()
	var input interface{}
	if c.Input != "" {
		v, err := val.ParseJSON(c.Input)
		if err != nil {
			return "", "bad_input"
		}
		input = toGoShared(v, c.Shared, map[string]interface{}{})
	}
	var rv interface{}
	if c.Var != "" {
		v, err := val.ParseJSON(c.Var)
		if err != nil {
			return "", "bad_input"
		}
		rv = toGoShared(v, c.Shared, map[string]interface{}{})
		if err := e.RegisterVars(map[string]interface{}{"rv": rv}); err != nil {
			return "", "bad_input"
		}
	}
	before, beforeVar := takeSnapshot(input), takeSnapshot(rv)
	out := port.Eval(e, input)
	after, afterVar := takeSnapshot(input), takeSnapshot(rv)
	if d := before.diff(after); d != "" {
		return "Eval modified its input document: " + d + " (outcome: " + out.Kind + ")", out.Kind
	}
	if d := beforeVar.diff(afterVar); d != "" {
		return "Eval modified the registered variable $rv: " + d + " (outcome: " + out.Kind + ")", out.Kind
	}
	return "", out.Kind
}

func init() {
	replay := func(raw json.RawMessage) string {
		var c c07Case
		if err := json.Unmarshal(raw, &c); err != nil {
			return "bad case: " + err.Error()
		}
		m, _ := c07Run(c)
		return m
	}
	for _, n := range []string{"TestC07_Mutators", "TestC07_Chaotic", "TestC07_Findings"} {
		registerReplay(n, replay)
	}
	registerReplay("TestC07_Transform", diffReplay)
}

// ---- generators

var c07Names = []string{"a", "b", "c", "d", "k"}

func genInputPath() *rapid.Generator[*ast.Node] {
	return rapid.Custom(func(t *rapid.T) *ast.Node {
		name := func() *ast.Node { return ast.NameN(rapid.SampledFrom(c07Names).Draw(t, "n")) }
		switch rapid.IntRange(0, 11).Draw(t, "pathKind") {
		case 0:
			return ast.VarN("")
		case 1:
			return ast.VarN("$")
		case 2:
			return ast.VarN("rv")
		case 3:
			return ast.PathN(ast.VarN("rv"), name())
		case 4:
			return ast.N(ast.Wild)
		case 5:
			return ast.N(ast.Desc)
		case 6:
			return ast.PathN(name(), name())
		case 7:
			return ast.PathN(ast.VarN("$"), name())
		case 8:
			return ast.PredN(name(), ast.NumN(0))
		case 9:
			p := ast.PathN(name())
			p.Keep = 1
			return p
		}
		return name()
	})
}

// genMutator wraps an operand into an operation that could be implemented
// destructively.
func genMutator(depth int) *rapid.Generator[*ast.Node] {
	return rapid.Custom(func(t *rapid.T) *ast.Node {
		var x *ast.Node
		if depth > 0 && rapid.IntRange(0, 2).Draw(t, "nest") == 0 {
			x = genMutator(depth-1).Draw(t, "inner")
		} else {
			x = genInputPath().Draw(t, "operand")
		}
		y := genInputPath().Draw(t, "operand2")
		key := ast.NameN(rapid.SampledFrom(c07Names).Draw(t, "key"))
		ident := ast.LambdaN([]string{"v"}, "", ast.VarN("v"))
		upd := ast.N(ast.Obj, ast.StrN(rapid.SampledFrom([]string{"z", "a", "b"}).Draw(t, "uk")), rapid.SampledFrom([]*ast.Node{ast.NumN(1), ast.VarN(""), ast.VarN("$"), ast.NameN("a"), ast.ArrN(ast.NumN(1), ast.NumN(2))}).Draw(t, "uv"))
		del := rapid.SampledFrom([]*ast.Node{nil, ast.StrN("a"), ast.ArrN(ast.StrN("a"), ast.StrN("b")), ast.NumN(1)}).Draw(t, "del")
		pattern := rapid.SampledFrom([]*ast.Node{ast.VarN(""), ast.N(ast.Desc), ast.N(ast.Wild), ast.VarN("$"), ast.VarN("rv"), ast.NameN("a"), ast.PathN(ast.VarN("$"), ast.NameN("a")), ast.PathN(ast.NameN("a"), ast.NameN("b")),
			// a pattern that starts inside the copy and then reaches back into the caller's data
			ast.PathN(ast.NameN("a"), ast.VarN("$"), ast.NameN("b")), ast.PathN(ast.N(ast.Wild), ast.VarN("$")), ast.PathN(ast.NameN("a"), ast.VarN("rv")), ast.PathN(ast.VarN(""), ast.BlockN(ast.VarN("$"))), ast.PathN(ast.NameN("b"), ast.VarN("$"), ast.NameN("a"))}).Draw(t, "pattern")
		tr := &ast.Node{K: ast.Transform, C: []*ast.Node{pattern, upd}}
		if del != nil {
			tr.C = append(tr.C, del)
		}
		switch rapid.IntRange(0, 31).Draw(t, "mutator") {
		case 28, 29, 30: // a composed function with the transform in a later stage: the earlier stage hands the caller's own objects on
			first := rapid.SampledFrom([]*ast.Node{ast.VarN("reverse"), ast.VarN("distinct"), ident,
				&ast.Node{K: ast.Partial, C: []*ast.Node{ast.VarN("append"), ast.N(ast.Hole), ast.ArrN()}},
				&ast.Node{K: ast.Partial, C: []*ast.Node{ast.VarN("filter"), ast.N(ast.Hole), ast.LambdaN([]string{"v"}, "", ast.BoolN(true))}},
				ast.LambdaN([]string{"v"}, "", ast.PredN(ast.VarN("v"), ast.NumN(0)))}).Draw(t, "stage1")
			if first.K == ast.Lambda {
				first = ast.BlockN(first)
			}
			comp := ast.BlockN(ast.N(ast.Chain, first, tr))
			if rapid.Bool().Draw(t, "viaVar") {
				return ast.BlockN(&ast.Node{K: ast.Assign, S: "mark", C: []*ast.Node{comp}}, ast.CallE(ast.VarN("mark"), x))
			}
			return ast.N(ast.Chain, x, comp)
		case 0:
			return ast.CallN("sort", x)
		case 1:
			return ast.CallN("sort", x, ast.LambdaN([]string{"l", "r"}, "", ast.BinN(">", ast.CallN("string", ast.VarN("l")), ast.CallN("string", ast.VarN("r")))))
		case 2:
			return ast.CallN("reverse", x)
		case 3:
			return ast.CallN("append", x, y)
		case 4:
			return ast.CallN("append", x, ast.NumN(1))
		case 5:
			return ast.CallN("shuffle", x)
		case 6:
			return ast.CallN("zip", x, y)
		case 7:
			return ast.CallN("merge", x)
		case 8:
			return ast.CallN("merge", ast.ArrN(x, ast.N(ast.Obj, ast.StrN("zz"), ast.NumN(1))))
		case 9:
			return ast.CallN("distinct", x)
		case 10:
			return &ast.Node{K: ast.Sort, C: []*ast.Node{x, key}, Dirs: []string{rapid.SampledFrom([]string{"", "<", ">"}).Draw(t, "dir")}}
		case 11:
			return &ast.Node{K: ast.Sort, C: []*ast.Node{x, ast.CallN("string", ast.VarN(""))}, Dirs: []string{">"}}
		case 12:
			return &ast.Node{K: ast.Group, C: []*ast.Node{x, ast.CallN("string", key), ast.VarN("")}}
		case 13:
			return ast.CallN("map", x, ident)
		case 14:
			return ast.CallN("filter", x, ast.LambdaN([]string{"v"}, "", ast.BoolN(true)))
		case 15:
			return ast.CallN("reduce", x, ast.VarN("append"))
		case 16, 17, 18:
			return ast.N(ast.Chain, x, tr)
		case 19:
			return ast.CallN("map", x, tr)
		case 20:
			return ast.CallN("spread", x)
		case 21:
			return ast.CallN("each", x, ast.LambdaN([]string{"v", "k"}, "", ast.VarN("v")))
		case 22:
			return ast.CallN("sift", x, ast.LambdaN([]string{"v"}, "", ast.BoolN(true)))
		case 23:
			return ast.ArrN(x, y)
		case 24:
			return ast.N(ast.Obj, ast.StrN("o"), x, ast.StrN("p"), y)
		case 25:
			return ast.CallN("lookup", x, ast.StrN("a"))
		case 26:
			return ast.BlockN(&ast.Node{K: ast.Assign, S: "t", C: []*ast.Node{x}}, ast.N(ast.Chain, ast.VarN("t"), tr))
		}
		return ast.N(ast.Chain, ast.N(ast.Chain, x, tr), tr)
	})
}

func c07Docs() *rapid.Generator[val.Value] {
	return rapid.OneOf(
		gen.Doc(gen.DocOpts{NestedArrays: 0.2}),
		gen.Doc(gen.DocOpts{NestedArrays: 0.2, NoEmpty: true, NullFree: true}),
		// documents on which the candidate mutators succeed: unsorted homogeneous
		// arrays (an in-place $sort/$reverse/$shuffle is only visible on those)
		rapid.Custom(func(t *rapid.T) val.Value {
			pool := []string{`[1,1,2,3,2,4]`, `["a","a","b","c","b","d"]`, `[{"k":1},{"k":1},{"k":2},[],[],7]`, `[3,1,2]`, `[2,1]`, `["b","a","c"]`, `[{"a":2,"k":"y"},{"a":1,"k":"x"}]`, `{"a":[3,1,2],"b":["z","y"]}`, `[[2,1],[3]]`, `[5,4,3,2,1,0]`, `["b","a"]`, `{"b":{"a":[9,8]}}`, `7`, `"s"`}
			m := map[string]val.Value{}
			for _, n := range c07Names {
				if rapid.IntRange(0, 3).Draw(t, "has") != 0 {
					m[n] = val.MustJSON(rapid.SampledFrom(pool).Draw(t, "v"))
				}
			}
			if rapid.IntRange(0, 4).Draw(t, "top") == 0 {
				return val.MustJSON(rapid.SampledFrom(pool[:8]).Draw(t, "topv"))
			}
			return val.O(m)
		}),
	)
}

func hasContainer(v val.Value) bool {
	return (v.K == val.Arr && len(v.A) > 0) || (v.K == val.Obj && len(v.O) > 0)
}

func c07Property(t *testing.T, rec *stats.Recorder, progs *rapid.Generator[*ast.Node], quick, thorough int, mutatorRule bool) {
	docs := c07Docs()
	rapidRun(t, rec, quick, thorough, func(rt *rapid.T) {
		prog := ast.Normalize(progs.Draw(rt, "prog"))
		doc := docs.Draw(rt, "doc")
		c := c07Case{Text: ast.Print(prog), Input: val.JSON(doc), Shared: rapid.Bool().Draw(rt, "shared"), Typed: rapid.IntRange(0, 3).Draw(rt, "typed") == 0}
		hasVar := strings.Contains(c.Text, "$rv")
		var rv val.Value
		if hasVar || rapid.IntRange(0, 3).Draw(rt, "withVar") == 0 {
			rv = docs.Draw(rt, "rv")
			c.Var = val.JSON(rv)
		}
		m, outcome := c07Run(c)
		nt := hasContainer(doc) || hasContainer(rv)
		if !mutatorRule {
			nt = nt && prog.Has(func(n *ast.Node) bool {
				return n.K == ast.Transform || n.K == ast.Sort || n.K == ast.Group ||
					(n.K == ast.Var && (n.S == "sort" || n.S == "reverse" || n.S == "append" || n.S == "shuffle" || n.S == "zip" || n.S == "merge" || n.S == "distinct" || n.S == "map" || n.S == "filter" || n.S == "reduce"))
			})
		}
		rec.Case(c.Text+"|"+c.Input+"|"+c.Var, nt, func() interface{} {
			return map[string]interface{}{"expr": c.Text, "input": c.Input, "rv": c.Var, "shared": c.Shared, "outcome": outcome}
		})
		rec.Class("outcome_" + outcome)
		if c.Shared {
			rec.Class("shared_substructure")
		}
		if m != "" && rec.Fail(c, m) {
			rt.Fatalf("%s\n  expr: %s\n  input: %s\n  $rv: %s", m, c.Text, c.Input, c.Var)
		}
	})
}

// TestC07_Mutators: operations that could be implemented destructively,
// nested, applied to parts of the input and of a registered variable.
func TestC07_Mutators(t *testing.T) {
	rec := begin(t, "C07", "rapid: candidate mutators ($sort, $reverse, $append, $shuffle, $zip, $merge, $distinct, order-by, grouping, $map/$filter/$reduce, $spread/$each/$sift, constructors, transforms with patterns $, **, *, $$, $rv, paths; updates and deletes) nested up to 3 deep over paths into generated inputs (nulls, empty containers, shared sub-structures) and a registered variable; frame oracle = canonical JSON + container identities before/after; non-trivial = input or variable contains a non-empty container; distinct by program + input + variable")
	defer finish(t, rec)
	c07Property(t, rec, genMutator(2), 30000, 400000, true)
}

// TestC07_Chaotic: the frame condition over type-chaotic programs.
func TestC07_Chaotic(t *testing.T) {
	rec := begin(t, "C07", "rapid: type-chaotic programs (as C09) under the same frame oracle; non-trivial = program contains a candidate mutator and the input a non-empty container")
	defer finish(t, rec)
	c07Property(t, rec, gen.Chaotic(gen.ChaoticOpts{MaxDepth: 5}), 20000, 300000, false)
}

// ---- functional part: transform against the reference evaluator

func genTransformProg() *rapid.Generator[*ast.Node] {
	return rapid.Custom(func(t *rapid.T) *ast.Node {
		name := func() *ast.Node { return ast.NameN(rapid.SampledFrom(c07Names).Draw(t, "n")) }
		pattern := rapid.OneOf(
			rapid.Just(ast.VarN("")),
			rapid.Custom(func(t *rapid.T) *ast.Node { return name() }),
			rapid.Custom(func(t *rapid.T) *ast.Node { return ast.PathN(name(), name()) }),
			rapid.Custom(func(t *rapid.T) *ast.Node {
				return ast.PredN(name(), ast.NumN(float64(rapid.IntRange(-1, 1).Draw(t, "i"))))
			}),
			rapid.Custom(func(t *rapid.T) *ast.Node {
				return ast.PredN(name(), ast.BinN("=", name(), ast.NumN(float64(rapid.IntRange(0, 2).Draw(t, "v")))))
			}),
			rapid.Just(ast.N(ast.Desc)),
			rapid.Just(ast.N(ast.Wild)),
			rapid.Just(ast.NameN("zz")),
			rapid.Just(ast.VarN("$")),
		).Draw(t, "pattern")
		uval := rapid.OneOf(
			rapid.Just(ast.NumN(1)),
			rapid.Custom(func(t *rapid.T) *ast.Node { return name() }),
			rapid.Custom(func(t *rapid.T) *ast.Node { return ast.CallN("count", name()) }),
			rapid.Just(ast.VarN("")),
			rapid.Custom(func(t *rapid.T) *ast.Node { return ast.BinN("&", ast.CallN("string", name()), ast.StrN("!")) }),
			rapid.Just(ast.VarN("sum")),
			rapid.Just(ast.NameN("zz")),
			rapid.Just(ast.NullN()), // a member set to null is set, not skipped
			rapid.Custom(func(t *rapid.T) *ast.Node { return ast.N(ast.Cond, ast.CallN("exists", name()), ast.NullN(), ast.NumN(2)) }),
			rapid.Just(ast.BoolN(false)),
			rapid.Just(ast.StrN("")),
			rapid.Just(ast.ArrN()),
		)
		var update *ast.Node
		switch rapid.IntRange(0, 19).Draw(t, "upd") {
		case 0:
			update = ast.NumN(5) // not an object: error
		case 1:
			update = ast.NameN("zz") // missing: no update
		case 2:
			update = ast.ArrN(ast.N(ast.Obj, ast.StrN("z"), ast.NumN(1)))
		case 3:
			update = name() // whatever the member is
		default:
			update = ast.N(ast.Obj)
			for i, n := 0, rapid.IntRange(0, 2).Draw(t, "npairs"); i < n; i++ {
				update.C = append(update.C, ast.StrN(rapid.SampledFrom([]string{"z", "a", "b", "k"}).Draw(t, "uk")+fmt.Sprint(i)), uval.Draw(t, "uv"))
			}
		}
		c := []*ast.Node{pattern, update}
		switch rapid.IntRange(0, 15).Draw(t, "del") {
		case 0:
			c = append(c, ast.StrN(rapid.SampledFrom(c07Names).Draw(t, "dk")))
		case 1:
			c = append(c, ast.ArrN(ast.StrN("a"), ast.StrN(rapid.SampledFrom(c07Names).Draw(t, "dk"))))
		case 2:
			c = append(c, ast.NumN(1)) // not a string: error
		case 3:
			c = append(c, ast.ArrN(ast.StrN("a"), ast.NumN(2)))
		case 4:
			c = append(c, ast.NameN("zz"))
		case 5: // names taken from the matched object itself (evaluated per object)
			c = append(c, name())
		case 6:
			c = append(c, ast.PathN(ast.VarN(""), name()))
		case 7:
			c = append(c, ast.ArrN(ast.StrN("a"), ast.PathN(ast.VarN(""), name())))
		case 8:
			c = append(c, ast.CallN("keys", ast.VarN("")))
		}
		tr := &ast.Node{K: ast.Transform, C: c}
		arg := rapid.OneOf(
			rapid.Just(ast.VarN("")),
			rapid.Custom(func(t *rapid.T) *ast.Node { return name() }),
			rapid.Custom(func(t *rapid.T) *ast.Node { return ast.PathN(name(), name()) }),
			rapid.Just(ast.NumN(3)),
			rapid.Just(ast.NameN("zz")),
			rapid.Just(ast.StrN("s")),
			// the same value at two places of the argument: only the place the
			// pattern selects may change
			rapid.Custom(func(t *rapid.T) *ast.Node {
				x := rapid.SampledFrom([]*ast.Node{ast.VarN(""), name(), ast.PathN(name(), name())}).Draw(t, "dup")
				k1 := rapid.SampledFrom(c07Names).Draw(t, "k1")
				k2 := rapid.SampledFrom([]string{"p", "q"}).Draw(t, "k2")
				if rapid.Bool().Draw(t, "asArray") {
					return ast.ArrN(x, x.Clone())
				}
				return ast.N(ast.Obj, ast.StrN(k1), x, ast.StrN(k2), x.Clone())
			}),
		).Draw(t, "arg")
		switch rapid.IntRange(0, 15).Draw(t, "apply") {
		case 0:
			return ast.CallN("map", arg, tr)
		case 1:
			return ast.N(ast.Chain, ast.N(ast.Chain, arg, tr), tr.Clone())
		case 2:
			return ast.CallE(tr, arg)
		case 3:
			return ast.CallE(tr) // wrong argument count
		case 4:
			return ast.CallE(tr, arg, arg.Clone())
		}
		return ast.N(ast.Chain, arg, tr)
	})
}

// TestC07_Transform: the result of | pattern | update, delete | against the
// reference (copy of the argument in which exactly the selected objects got
// the update members and lost the deleted names; error clauses).
func TestC07_Transform(t *testing.T) {
	rec := begin(t, "C07", "rapid: transforms with context-relative patterns (paths, predicates, *, **, $), updates (constructors over the matched object, non-objects, missing) and deletes (strings, arrays, non-strings), applied through ~>, $map, twice in a row, and with wrong argument counts/types, on single-member-object documents; oracle = reference evaluator; non-trivial = the result differs from the argument or is an error")
	defer finish(t, rec)
	progs := genTransformProg()
	docs := gen.Doc(gen.DocOpts{NullFree: true, SingleMember: false, NestedArrays: 0.1, Names: c07Names})
	rapidRun(t, rec, 25000, 300000, func(rt *rapid.T) {
		prog := progs.Draw(rt, "prog")
		doc := docs.Draw(rt, "doc")
		c := mkDiff(prog, doc, true)
		// wildcards/descendants expose map order only through the order of
		// updates, which commute; results are compared as unordered objects
		p, r, m, skip := diffRun(c)
		if skip {
			rec.Class("skipped_" + r.Why)
			return
		}
		if m != "" && p.Kind == port.KError && r.Kind == port.KError && strings.Contains(c.Text, "*") {
			// * and ** visit the matched objects in Go map order; when two of
			// them raise different errors (one an illegal update, another an
			// illegal delete) which one is reported is not determined
			rec.Class("error_kind_depends_on_map_order")
			m = ""
		}
		nt := p.Kind == port.KError || (p.Kind == port.KValue && val.Canon(p.Val) != val.Canon(doc))
		rec.Case(c.Text+"|"+c.Input, nt, diffSample(c, p))
		rec.Class("outcome_" + p.Kind)
		if m != "" && rec.Fail(c, m) {
			rt.Fatalf("%s\n  expr: %s\n  input: %s", m, c.Text, c.Input)
		}
	})
}
