package checks

// C06 — Concurrent evaluations are isolated and race-free. The test binary is
// built with -race. Oracles: (1) every concurrent outcome equals the outcome
// of the same (program, input) computed sequentially beforehand; (2) any race
// report of the race detector that involves the library; (3) a batch registered
// in one package-level call is visible to a concurrently compiled Expr entirely
// or not at all, and Expr-level registrations stay private.

import (
	"encoding/json"
	"fmt"
	"os"
	"path/filepath"
	"runtime"
	"strings"
	"sync"
	"sync/atomic"
	"testing"

	jsonata "github.com/blues/jsonata-go"
	"pgregory.net/rapid"

	"verif/harness/internal/ast"
	"verif/harness/internal/gen"
	"verif/harness/internal/port"
	"verif/harness/internal/stats"
	"verif/harness/internal/val"
)

type c06Workload struct {
	Config     string   `json:"config"` // shared | own | rotated | register
	Goroutines int      `json:"goroutines"`
	Procs      int      `json:"gomaxprocs"`
	Iterations int      `json:"iterations"`
	Texts      []string `json:"texts"`
	Extra      []string `json:"extra_docs"`  // generated documents merged into the per-goroutine inputs
	ShareInput bool     `json:"share_input"` // goroutines with the same index modulo 2 read one and the same input object
}

var c06Templates = []string{
	`a.$substringBefore("z")`,
	`tag.($p := $substringBefore(?); $p("-"))`,
	`n ~> $power(2)`,
	`$map(arr, function($v){$v * n})`,
	`tag ~> $uppercase ~> $pad(10, "*")`,
	`items^(k).v`,
	`$ ~> |o|{"t": $$.tag}|`,
	`$replace(a, /[a-c]+/, function($m){$uppercase($m.match) & tag})`,
	`$match(a, /[a-z]/)[0].match & tag`,
	`items{k: v * n}`,
	`$join($map($sort(arr), $string), tag)`,
	`a.$length() + n`,
	`tag.$pad(?, "#")(8)`,
	`$reduce(arr, function($a, $b){$a + $b}) & tag`,
	`$fromMillis(n * 86400000) & tag`,
	`$formatNumber(n + 0.5, "#0.00") & tag`,
	`a.$substringBefore($$.tag.$substringBefore("-"))`,
	`$each(o, function($v, $k){$k & $v & tag})`,
	`$split(tag, "-")[0] & $string($count(arr))`,
	`$sum(arr) + $max(arr) + $min(arr) + $average(arr)`,
	`tag.$uppercase() & a.$lowercase() & n.$string()`,
	`[tag, a, n].$string().$length()`,
	`$filter(arr, function($v, $i){$i = 0 or $v > n}) ~> $count()`,
	`(tag ~> $split("-"))[1] & a.$substring(1, 2)`,
	`$lookup(o, "k") + n.$abs()`,
	`items[k = "a"].v ~> $string() ~> $pad(-4, "0")`,
	// a transform whose pattern starts in its copy and reaches back into the (possibly shared) input, next to readers of that part
	`($ ~> |items.$$.o|{"t": "touched"}, "k"|).o.k & tag`,
	`($v := o; $ ~> |items[v >= 0].$v|{"t": 1}|; $string(o)) & tag`,
	`$string($keys(o)) & $string(o.k) & $string($exists(o.t))`,
	// the order of an input array as it is, next to programs that sort / reverse it
	`$string(arr[0]) & "," & $string(arr[1]) & "," & $string(arr[-1]) & tag`,
	`$string($sort(arr)[0]) & $string($reverse(arr)[0]) & $string(items^(k)[0].v)`,
	// string literals with escape sequences (decoded while compiling: the "own" and
	// "register" configurations compile concurrently)
	`"f\tf\tf\tf\tf\né😀\\" & tag & "\tb\tb\tb\"b\/\n"`,
	`{"k\t1é": tag}.("A\r\n" & $string($.*) & 'q\"q\\')`,
	// the random source is process-wide state too; these use it with a deterministic result
	`($r := $random(); $r >= 0 and $r < 1) ? tag : "random out of range"`,
	`$string($sort($shuffle(arr))) & tag`,
	`$sum($shuffle($append(arr, [n, n, n]))) + $count($shuffle(items))`,
	// every goroutine renders in its own time zone
	`$fromMillis(n * 86400000 + 45000000, "[Y0001]-[M01]-[D01] [H01]:[m01] [Z]", tz) & tag`,
	`$toMillis($fromMillis(1521801216617, "[Y0001]-[M01]-[D01]T[H01]:[m01]:[s01].[f001][Z01:01]", tz), "[Y0001]-[M01]-[D01]T[H01]:[m01]:[s01].[f001][Z01:01]") & tz & tag`,
	// a (possibly shared) input array extended by one item: the array itself stays as it is
	`$string($append(arr, [n])) & $string($append(arr, tag)) & tag`,
	`$count($append($append(arr, [tag]), [n, tag])) & $string($append(items.v, [n])) & tag`,
}

func c06Input(i int, extra string) string {
	m := map[string]interface{}{
		"tag":   fmt.Sprintf("g%d-x%d", i, i*7),
		"a":     fmt.Sprintf("%dabcz%d", i, i),
		"n":     float64(i + 1),
		"tz":    fmt.Sprintf("%+03d%02d", (i*5)%27-13, (i%2)*30),
		"arr":  []interface{}{float64(i + 3), float64(1), float64(i + 2)},
		"o":     map[string]interface{}{"k": float64(i)},
		"items": []interface{}{map[string]interface{}{"k": "b", "v": float64(i)}, map[string]interface{}{"k": "a", "v": float64(i + 10)}},
	}
	if extra != "" {
		var x interface{}
		if json.Unmarshal([]byte(extra), &x) == nil {
			m["extra"] = x
			if xm, ok := x.(map[string]interface{}); ok {
				for k, v := range xm {
					if _, dup := m[k]; !dup {
						m[k] = v
					}
				}
			}
		}
	}
	b, _ := json.Marshal(m)
	return string(b)
}

var c06RegSeq int64

// raceLogSize returns the size of this process's race-detector log (GORACE log_path).
func raceLogPath() string {
	for _, f := range strings.Fields(os.Getenv("GORACE")) {
		if strings.HasPrefix(f, "log_path=") {
			return fmt.Sprintf("%s.%d", f[len("log_path="):], os.Getpid())
		}
	}
	return ""
}

func raceLogTail(from int64) string {
	p := raceLogPath()
	if p == "" {
		return ""
	}
	b, err := os.ReadFile(p)
	if err != nil || int64(len(b)) <= from {
		return ""
	}
	return string(b[from:])
}

func raceLogSize() int64 {
	p := raceLogPath()
	if p == "" {
		return 0
	}
	st, err := os.Stat(p)
	if err != nil {
		return 0
	}
	return st.Size()
}

type c06Stats struct {
	evals     int64
	pairs     int // (program, input) pairs executed by >= 2 goroutines... counted as pairs run concurrently
	mismatch  string
	mismatchN int64
}

// c06Run executes one workload; msg != "" is a violation.
func c06Run(w c06Workload) (msg string, st c06Stats) {
	prev := runtime.GOMAXPROCS(w.Procs)
	defer runtime.GOMAXPROCS(prev)
	G := w.Goroutines
	inputs := make([]string, G)
	for i := range inputs {
		extra := ""
		if len(w.Extra) > 0 {
			extra = w.Extra[i%len(w.Extra)]
		}
		inputs[i] = c06Input(i, extra)
		if w.ShareInput && i >= 2 {
			inputs[i] = inputs[i%2] // goroutines of the same parity read one and the same input object
		}
	}
	texts := w.Texts
	// sequential baseline, computed with fresh Exprs and fresh inputs
	expect := make([][]port.Outcome, G)
	for i := 0; i < G; i++ {
		expect[i] = make([]port.Outcome, len(texts))
		for k, t := range texts {
			expect[i][k] = port.Run(t, inputs[i])
			if expect[i][k].Kind == port.KPanic {
				return "", st // C09's business
			}
		}
	}
	// "when run alone": an argument error names a function and a position; the
	// same program is evaluated in a process that has evaluated nothing else
	for k, t := range texts {
		if e := expect[0][k]; e.Kind == port.KError && (e.Err == "ArgCount" || e.Err == "ArgType") {
			is := newIsolator()
			r := is.Call("evalv", mustJSON(evalCase{Text: t, Input: inputs[0]}))
			is.Close()
			var alone evalResult
			if r.Status == isoOK && json.Unmarshal(r.Result, &alone) == nil && alone.Kind == port.KError && alone.Err == e.Err && alone.Msg != e.Msg {
				return fmt.Sprintf("%q fails with %q in this process (after other programs were evaluated), but with %q when evaluated alone in a fresh process", t, e.Msg, alone.Msg), st
			}
		}
	}
	logBefore := raceLogSize()
	shared := make([]*jsonata.Expr, len(texts))
	for k, t := range texts {
		e, o := port.Compile(t)
		if o != nil {
			return "", st
		}
		shared[k] = e
	}
	// shared input objects (read-only sharing between goroutines)
	decoded := make([]interface{}, G)
	for i := range decoded {
		if w.ShareInput && i >= 2 {
			decoded[i] = decoded[i%2]
			continue
		}
		decoded[i], _ = port.DecodeJSON(inputs[i])
	}
	var wg sync.WaitGroup
	var mu sync.Mutex
	var stop int32
	report := func(s string) {
		mu.Lock()
		if st.mismatch == "" {
			st.mismatch = s
		}
		st.mismatchN++
		mu.Unlock()
	}
	if w.Config == "register" {
		wg.Add(1)
		go func() {
			defer wg.Done()
			for atomic.LoadInt32(&stop) == 0 {
				n := float64(atomic.AddInt64(&c06RegSeq, 1))
				jsonata.RegisterVars(map[string]interface{}{"c06x": n, "c06y": n})
				jsonata.RegisterExts(map[string]jsonata.Extension{"c06f": {Func: func(x float64) float64 { return x + n - n }}})
				runtime.Gosched()
			}
		}()
	}
	var workers sync.WaitGroup
	for i := 0; i < G; i++ {
		workers.Add(1)
		go func(i int) {
			defer workers.Done()
			own := make([]*jsonata.Expr, len(texts))
			if w.Config != "shared" {
				for k, t := range texts {
					own[k], _ = port.Compile(t)
				}
			}
			var mine *jsonata.Expr
			if w.Config == "register" {
				mine, _ = port.Compile("$c06mine")
				if mine != nil {
					mine.RegisterVars(map[string]interface{}{"c06mine": float64(1000 + i)})
				}
			}
			for it := 0; it < w.Iterations; it++ {
				for kk := range texts {
					k := kk
					if w.Config == "rotated" {
						k = (kk + i) % len(texts)
					}
					e := shared[k]
					if own[k] != nil {
						e = own[k]
					}
					var in interface{}
					if w.ShareInput {
						in = decoded[i]
					} else {
						in, _ = port.DecodeJSON(inputs[i])
					}
					out := port.Eval(e, in)
					atomic.AddInt64(&st.evals, 1)
					if port.Same(out, expect[i][k]) && out.Kind == port.KError && (out.Err == "ArgCount" || out.Err == "ArgType") && out.Msg != expect[i][k].Msg {
						report(fmt.Sprintf("goroutine %d of %d (%s): %q fails with %q concurrently, but with %q when evaluated alone", i, G, w.Config, texts[k], out.Msg, expect[i][k].Msg))
					}
					if !port.Same(out, expect[i][k]) {
						report(fmt.Sprintf("goroutine %d of %d (%s): %q on its own input gave %s concurrently, but %s when evaluated alone", i, G, w.Config, texts[k], out.String(), expect[i][k].String()))
					}
				}
				if w.Config == "register" {
					if e, o := port.Compile("[$c06x, $c06y, $exists($c06mine)]"); o == nil {
						out := port.Eval(e, nil)
						atomic.AddInt64(&st.evals, 1)
						if out.Kind == port.KValue && out.Val.K == val.Arr {
							a := out.Val.A
							if len(a) == 3 && (a[0].N != a[1].N) {
								report(fmt.Sprintf("package-level RegisterVars({c06x:n, c06y:n}) was seen half-applied by a concurrent Compile: [$c06x, $c06y] = %s", out.Repr))
							}
							if len(a) >= 1 && a[len(a)-1].K == val.Bool && a[len(a)-1].B {
								report("a variable registered on one Expr ($c06mine) is visible to an Expr compiled elsewhere")
							}
						}
					}
					if mine != nil {
						out := port.Eval(mine, nil)
						if !(out.Kind == port.KValue && out.Val.N == float64(1000+i)) {
							report(fmt.Sprintf("goroutine %d registered $c06mine=%d on its own Expr but reads %s", i, 1000+i, out.String()))
						}
					}
				}
				if it%7 == i%7 {
					runtime.Gosched()
				}
			}
		}(i)
	}
	workers.Wait()
	atomic.StoreInt32(&stop, 1)
	wg.Wait()
	st.pairs = len(texts) * G
	if st.mismatch != "" {
		return fmt.Sprintf("%s (%d wrong results in %d evaluations)", st.mismatch, st.mismatchN, st.evals), st
	}
	if tail := raceLogTail(logBefore); strings.Contains(tail, "DATA RACE") && strings.Contains(tail, "github.com/blues/jsonata-go") {
		return "the race detector reported a data race in the library:\n" + firstLines(tail, 40), st
	}
	return "", st
}

func init() {
	replay := func(raw json.RawMessage) string {
		var w c06Workload
		if err := json.Unmarshal(raw, &w); err != nil {
			return "bad case: " + err.Error()
		}
		// schedule-dependent: re-run the workload up to 20 times
		for i := 0; i < 20; i++ {
			if m, _ := c06Run(w); m != "" {
				return m
			}
		}
		return ""
	}
	registerReplay("TestC06_Workloads", replay)
	registerReplay("TestC06_Findings", replay)
}

// TestC06_Workloads generates and runs concurrent workloads.
func TestC06_Workloads(t *testing.T) {
	rec := begin(t, "C06", "rapid: workloads of 2..32 goroutines x {one shared Expr, own Expr per goroutine, rotated program order, package-level Register* + Compile + Expr-level registration running alongside} x 3..7 programs (29 templates over context-defaulting built-ins, chains, partials, lambdas, transforms, regexes, sorts, formatting, the process-wide random source; plus deterministic type-chaotic programs) x goroutine-specific inputs whose correct results differ x GOMAXPROCS in {2,4,16}; -race build; non-trivial = a (program, input) pair with a built-in call executed while >= 1 other goroutine evaluates; distinct by pair within a workload")
	defer finish(t, rec)
	if !raceEnabled {
		rec.Note("race_detector", "OFF: this binary was not built with -race; only the isolation oracle ran")
	} else {
		rec.Note("race_detector", "on")
	}
	chaos := gen.Chaotic(gen.ChaoticOpts{MaxDepth: 3, Exclude: c05Exclude})
	docs := gen.Doc(gen.DocOpts{NestedArrays: 0.2})
	shard, _ := stats.Shard()
	cur := filepath.Join(os.Getenv("VERIF_STATS_DIR"), fmt.Sprintf("c06-current.%d.case", shard))
	rapidRun(t, rec, 20, 150, func(rt *rapid.T) {
		w := c06Workload{
			Config:     rapid.SampledFrom([]string{"shared", "shared", "own", "rotated", "register"}).Draw(rt, "config"),
			Goroutines: rapid.SampledFrom([]int{2, 4, 8, 16, 32}).Draw(rt, "goroutines"),
			Procs:      rapid.SampledFrom([]int{2, 4, 16}).Draw(rt, "gomaxprocs"),
			ShareInput: rapid.Bool().Draw(rt, "shareInput"),
		}
		nt := rapid.IntRange(3, 7).Draw(rt, "nprogs")
		for len(w.Texts) < nt {
			if rapid.IntRange(0, 3).Draw(rt, "chaoticProg") == 0 {
				p := ast.Normalize(chaos.Draw(rt, "prog"))
				if !isDeterministic(p) {
					continue
				}
				text := ast.Print(p)
				if _, o := port.Compile(text); o != nil {
					continue
				}
				w.Texts = append(w.Texts, text)
			} else {
				w.Texts = append(w.Texts, rapid.SampledFrom(c06Templates).Draw(rt, "template"))
			}
		}
		// every other workload also runs a built-in through a differently named
		// variable next to a failing call of the same built-in that is not made by
		// name (the error must name the function itself), and reads the clock twice
		if rapid.Bool().Draw(rt, "aliasAndClock") {
			w.Texts = append(w.Texts, rapid.SampledFrom([][]string{
				{`($j := $join; $j([tag, a], "-"))`, `$map([tag, n], $join)`},
				{`($r := $reduce; $r(arr, function($x, $y){$x + $y}))`, `[n] ~> $reduce`},
				{`($c := $count; $c(arr))`, `$filter([tag], $count(?, n))`},
			}).Draw(rt, "aliasPair")...)
			w.Texts = append(w.Texts, `($m := $millis(); $s := $sum([1..2000]); ($millis() = $m and $toMillis($now()) = $m) ? tag & $s : "the clock moved within one evaluation")`)
		}
		// goroutines that share one input object always include evaluations that
		// would be visible to each other if any built-in worked on the caller's
		// array itself: sorting / reversing / extending it next to reading its order
		if w.ShareInput {
			w.Texts = append(w.Texts,
				`$string($sort(arr)) & $string($sort(items.k)) & tag`,
				`$string(arr[0]) & "," & $string(arr[1]) & "," & $string(arr[-1]) & tag`,
				`$string($reverse(arr)) & $string($append(arr, [n])) & $string($distinct(arr)) & tag`)
		}
		for i := 0; i < 3; i++ {
			w.Extra = append(w.Extra, val.JSON(docs.Draw(rt, "extra")))
		}
		budget := stats.Scale(6000, 20000)
		w.Iterations = budget / (w.Goroutines * len(w.Texts))
		if w.Iterations < 5 {
			w.Iterations = 5
		}
		if os.Getenv("VERIF_STATS_DIR") != "" {
			os.WriteFile(cur, mustJSON(w), 0o644)
		}
		msg, st := c06Run(w)
		// rec.Case below counts one evaluation per (program, goroutine) pair
		if n := int(st.evals) - len(w.Texts)*w.Goroutines; n > 0 {
			rec.Eval(n)
		}
		for k, text := range w.Texts {
			hasCall := strings.Contains(text, "$")
			for i := 0; i < w.Goroutines; i++ {
				rec.Case(fmt.Sprintf("%s|%d|%d|%s|%d", w.Config, w.Goroutines, i, text, k), hasCall, func() interface{} {
					return map[string]interface{}{"config": w.Config, "goroutines": w.Goroutines, "gomaxprocs": w.Procs, "program": text, "iterations": w.Iterations}
				})
			}
		}
		rec.Class("config_" + w.Config)
		rec.Class(fmt.Sprintf("goroutines_%d", w.Goroutines))
		if msg != "" && rec.Fail(w, msg) {
			rt.Fatalf("%s", msg)
		}
	})
	os.Remove(cur)
}
