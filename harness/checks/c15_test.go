package checks

// C15 — Array, higher-order and aggregate functions compute their definitions.
// Oracle: reference implementations written from the definitions (package ref),
// observing callbacks (value, index, whole array) so that the visiting order
// and the arity trimming are checked, and a permutation predicate for $shuffle.

import (
	"encoding/json"
	"fmt"
	"testing"

	"pgregory.net/rapid"

	"verif/harness/internal/ast"
	"verif/harness/internal/port"
	"verif/harness/internal/stats"
	"verif/harness/internal/val"
)

func init() {
	for _, n := range []string{"TestC15_Exhaustive", "TestC15_Random", "TestC15_Findings"} {
		registerReplay(n, diffReplay)
	}
	registerReplay("TestC15_Shuffle", func(raw json.RawMessage) string {
		var c evalCase
		if err := json.Unmarshal(raw, &c); err != nil {
			return "bad case: " + err.Error()
		}
		return shuffleCheck(c)
	})
}

type c15Template struct {
	name string
	mk   func(a *ast.Node) *ast.Node
}

func lam(params []string, body *ast.Node) *ast.Node { return ast.LambdaN(params, "", body) }

func c15Templates() []c15Template {
	v, i, arr := ast.VarN("v"), ast.VarN("i"), ast.VarN("arr")
	observe3 := lam([]string{"v", "i", "arr"}, ast.ArrN(ast.ArrN(v, i, ast.CallN("count", arr), ast.CallN("type", arr), ast.CallN("string", arr))))
	observe2 := lam([]string{"v", "i"}, ast.ArrN(ast.ArrN(v, i)))
	observe1 := lam([]string{"v"}, ast.ArrN(ast.ArrN(v)))
	observe0 := lam(nil, ast.StrN("x"))
	observe4 := lam([]string{"v", "i", "arr", "extra"}, ast.ArrN(ast.ArrN(v, i, ast.CallN("count", arr), ast.CallN("type", arr), ast.CallN("exists", ast.VarN("extra")))))
	fold := lam([]string{"acc", "v"}, ast.BinN("&", ast.BinN("&", ast.CallN("string", ast.VarN("acc")), ast.StrN("|")), ast.CallN("string", v)))
	isOne := lam([]string{"v"}, ast.BinN("=", v, ast.NumN(1)))
	T := func(name string, mk func(a *ast.Node) *ast.Node) c15Template { return c15Template{name, mk} }
	return []c15Template{
		T("map3", func(a *ast.Node) *ast.Node { return ast.CallN("map", a, observe3) }),
		T("map2", func(a *ast.Node) *ast.Node { return ast.CallN("map", a, observe2) }),
		T("map1", func(a *ast.Node) *ast.Node { return ast.CallN("map", a, observe1) }),
		T("map0", func(a *ast.Node) *ast.Node { return ast.CallN("map", a, observe0) }),
		T("map4", func(a *ast.Node) *ast.Node { return ast.CallN("map", a, observe4) }),
		T("map-drop", func(a *ast.Node) *ast.Node {
			return ast.CallN("map", a, lam([]string{"v", "i"}, ast.N(ast.Cond, ast.BinN("!=", i, ast.NumN(1)), ast.ArrN(ast.ArrN(v)))))
		}),
		T("map-builtin", func(a *ast.Node) *ast.Node { return ast.CallN("map", a, ast.VarN("string")) }),
		T("map-partial", func(a *ast.Node) *ast.Node {
			return ast.CallN("map", a, &ast.Node{K: ast.Partial, C: []*ast.Node{ast.VarN("append"), ast.N(ast.Hole), ast.NumN(0)}})
		}),
		T("map-chain", func(a *ast.Node) *ast.Node {
			return ast.N(ast.Chain, a, ast.CallN("map", ast.BlockN(ast.N(ast.Chain, ast.VarN("string"), ast.VarN("length")))))
		}),
		T("filter-index", func(a *ast.Node) *ast.Node {
			return ast.CallN("filter", a, lam([]string{"v", "i"}, ast.BinN("!=", i, ast.NumN(1))))
		}),
		T("filter-value", func(a *ast.Node) *ast.Node { return ast.CallN("filter", a, isOne) }),
		T("filter-truthy", func(a *ast.Node) *ast.Node { return ast.CallN("filter", a, ast.VarN("boolean")) }),
		T("filter-arr", func(a *ast.Node) *ast.Node {
			return ast.CallN("filter", a, lam([]string{"v", "i", "arr"}, ast.BinN("=", ast.CallN("count", arr), ast.BinN("+", i, ast.NumN(1)))))
		}),
		T("reduce", func(a *ast.Node) *ast.Node { return ast.CallN("reduce", a, fold) }),
		T("reduce-init", func(a *ast.Node) *ast.Node { return ast.CallN("reduce", a, fold, ast.StrN("#")) }),
		T("reduce-arity1", func(a *ast.Node) *ast.Node { return ast.CallN("reduce", a, observe1) }),
		T("reduce-arity3", func(a *ast.Node) *ast.Node { return ast.CallN("reduce", a, observe3) }),
		T("reduce-append", func(a *ast.Node) *ast.Node { return ast.CallN("reduce", a, ast.VarN("append")) }),
		T("single-one", func(a *ast.Node) *ast.Node { return ast.CallN("single", a, isOne) }),
		T("single-all", func(a *ast.Node) *ast.Node { return ast.CallN("single", a, lam([]string{"v"}, ast.BoolN(true))) }),
		T("single-index", func(a *ast.Node) *ast.Node {
			return ast.CallN("single", a, lam([]string{"v", "i"}, ast.BinN("=", i, ast.NumN(2))))
		}),
		T("append-self", func(a *ast.Node) *ast.Node { return ast.CallN("append", a, a.Clone()) }),
		T("append-scalar", func(a *ast.Node) *ast.Node { return ast.CallN("append", a, ast.NumN(5)) }),
		T("append-to-scalar", func(a *ast.Node) *ast.Node { return ast.CallN("append", ast.NumN(5), a) }),
		T("append-missing", func(a *ast.Node) *ast.Node { return ast.CallN("append", ast.NameN("zz"), a) }),
		T("reverse", func(a *ast.Node) *ast.Node { return ast.CallN("reverse", a) }),
		T("zip-self", func(a *ast.Node) *ast.Node { return ast.CallN("zip", a, ast.CallN("reverse", a.Clone())) }),
		T("zip-shorter", func(a *ast.Node) *ast.Node { return ast.CallN("zip", a, ast.ArrN(ast.StrN("p"), ast.StrN("q"))) }),
		T("zip-three", func(a *ast.Node) *ast.Node { return ast.CallN("zip", a, ast.ArrN(ast.NumN(7)), a.Clone()) }),
		T("zip-one", func(a *ast.Node) *ast.Node { return ast.CallN("zip", a) }),
		T("zip-scalar", func(a *ast.Node) *ast.Node { return ast.CallN("zip", a, ast.NumN(9)) }),
		T("distinct", func(a *ast.Node) *ast.Node { return ast.CallN("distinct", a) }),
		T("distinct-doubled", func(a *ast.Node) *ast.Node { return ast.CallN("distinct", ast.CallN("append", a, a.Clone())) }),
		T("distinct-kinds", func(a *ast.Node) *ast.Node {
			return ast.CallN("distinct", ast.CallN("append", a, ast.ArrN(ast.NumN(1), ast.StrN("1"), ast.BoolN(true), ast.ArrN(ast.NumN(1)), ast.N(ast.Obj, ast.StrN("a"), ast.NumN(1)), ast.N(ast.Obj, ast.StrN("a"), ast.StrN("1")), ast.CallN("count", ast.ArrN(ast.NumN(9))))))
		}),
		// a string that spells the JSON text of a container is a different member (seed C15-q)
		T("distinct-spelled-literals", func(a *ast.Node) *ast.Node {
			return ast.CallN("distinct", ast.CallN("append", a, ast.ArrN(ast.StrN("[1]"), ast.StrN(`{"a":1}`), ast.StrN("true"), ast.StrN("null"), ast.StrN("2"), ast.ArrN(ast.NumN(1)), ast.N(ast.Obj, ast.StrN("a"), ast.NumN(1)))))
		}),
		T("distinct-spelled-members", func(a *ast.Node) *ast.Node {
			return ast.CallN("distinct", ast.CallN("append", ast.CallN("map", a, lam([]string{"v"}, ast.CallN("string", v))), a.Clone()))
		}),
		T("count", func(a *ast.Node) *ast.Node { return ast.CallN("count", a) }),
		T("sum", func(a *ast.Node) *ast.Node { return ast.CallN("sum", a) }),
		T("max", func(a *ast.Node) *ast.Node { return ast.CallN("max", a) }),
		T("min", func(a *ast.Node) *ast.Node { return ast.CallN("min", a) }),
		T("average", func(a *ast.Node) *ast.Node { return ast.CallN("average", a) }),
		T("aggregates-of-numbers", func(a *ast.Node) *ast.Node {
			nums := ast.CallN("filter", a, lam([]string{"v"}, ast.BinN("=", ast.CallN("type", v), ast.StrN("number"))))
			return ast.ArrN(ast.CallN("sum", nums), ast.CallN("max", nums.Clone()), ast.CallN("min", nums.Clone()), ast.CallN("average", nums.Clone()), ast.CallN("count", nums.Clone()))
		}),
	}
}

var c15Domain = []val.Value{val.N(1), val.S("1"), val.True, val.A(val.N(1)), val.O(map[string]val.Value{"a": val.N(1)}), val.N(2), val.NullV}

func c15Judge(rec *stats.Recorder, prog *ast.Node, doc val.Value, key string, nt bool) (string, diffCase) {
	c := mkDiff(prog, doc, true)
	p, r, m, skip := diffRun(c)
	if skip {
		rec.Class("skipped_" + r.Why)
		return "", c
	}
	rec.Case(key, nt, diffSample(c, p))
	rec.Class("outcome_" + p.Kind)
	return m, c
}

// TestC15_Exhaustive: every array of length <= 3 over a 6-value domain, as a
// literal and as an input member, under every template.
func TestC15_Exhaustive(t *testing.T) {
	rec := begin(t, "C15", "exhaustive: every array of 0..3 members over {1, \"1\", true, [1], {\"a\":1}, 2, null}, supplied as an array literal and as an input member, plus scalars and a missing value in array position, under 42 templates covering $map/$filter/$reduce/$single (observing callbacks of arity 0..4, built-ins, partials, chains as callbacks), $append, $reverse, $zip, $distinct, $count, $sum, $max, $min, $average; oracle = reference implementations; non-trivial = array of >= 2 members or a scalar/missing value in array position; distinct by (template, operand, supply mode)")
	defer finish(t, rec)
	var arrays [][]val.Value
	var build func(cur []val.Value, length int)
	build = func(cur []val.Value, length int) {
		if len(cur) == length {
			arrays = append(arrays, append([]val.Value{}, cur...))
			return
		}
		for _, x := range c15Domain {
			build(append(cur, x), length)
		}
	}
	for l := 0; l <= 3; l++ {
		build(nil, l)
	}
	templates := c15Templates()
	n := 0
	shard, nshards := stats.Shard()
	for ai, arr := range arrays {
		if ai%nshards != shard {
			continue
		}
		doc := val.O(map[string]val.Value{"a": val.A(arr...)})
		for _, tpl := range templates {
			for _, mode := range []string{"literal", "member"} {
				operand := jsonLit(val.A(arr...))
				if mode == "member" {
					operand = ast.PathN(ast.VarN("$"), ast.NameN("a"))
				}
				m, c := c15Judge(rec, tpl.mk(operand), doc, fmt.Sprintf("%s|%d|%s", tpl.name, ai, mode), len(arr) >= 2)
				n++
				if m != "" && rec.FailNow(c, m) >= 8 {
					return
				}
			}
		}
	}
	// scalars and missing in array position
	objDoc := val.MustJSON(`{"o0":{},"o2":{"k":1,"j":"1"},"o3":{"a":[1,2],"b":{"c":1},"d":false},"n":7,"s":"str"}`)
	for si, sc := range []*ast.Node{ast.NumN(5), ast.StrN("s"), ast.BoolN(false), ast.NullN(), ast.N(ast.Obj, ast.StrN("k"), ast.NumN(1)), ast.NameN("zz"), ast.VarN("sum"),
		// objects with no, two and three members (a non-array counts as ONE member), literal and from the input
		ast.N(ast.Obj), ast.N(ast.Obj, ast.StrN("k"), ast.NumN(1), ast.StrN("j"), ast.StrN("1")),
		ast.PathN(ast.VarN("$"), ast.NameN("o0")), ast.PathN(ast.VarN("$"), ast.NameN("o2")), ast.PathN(ast.VarN("$"), ast.NameN("o3")), ast.PathN(ast.VarN("$"), ast.NameN("n")), ast.PathN(ast.VarN("$"), ast.NameN("s"))} {
		for _, tpl := range templates {
			m, c := c15Judge(rec, tpl.mk(sc), objDoc, fmt.Sprintf("%s|scalar%d", tpl.name, si), true)
			n++
			if m != "" && rec.FailNow(c, m) >= 8 {
				return
			}
		}
	}
	rec.Exhaustive("arrays_le3_x_templates_x_supply_modes", n)
	if nshards == 1 {
		rec.AllExhaustive()
	}
}

func genC15Array(t *rapid.T) []val.Value {
	n := rapid.IntRange(0, 8).Draw(t, "len")
	numeric := rapid.IntRange(0, 2).Draw(t, "numeric") == 0
	out := make([]val.Value, n)
	for i := range out {
		if numeric {
			out[i] = val.N(rapid.SampledFrom([]float64{0, 1, 2, 3, -1, 0.5, 10, 2.5, 1e15, 0.1, 0.2, -0.3}).Draw(t, "num"))
			continue
		}
		out[i] = rapid.SampledFrom([]val.Value{
			val.N(1), val.S("1"), val.True, val.A(val.N(1)), val.O(map[string]val.Value{"a": val.N(1)}), val.O(map[string]val.Value{"a": val.S("1")}),
			val.N(2), val.S("a"), val.False, val.A(), val.A(val.S("1")), val.A(val.N(1), val.N(2)), val.O(nil), val.N(0), val.S(""), val.A(val.A(val.N(1))), val.NullV,
		}).Draw(t, "member")
	}
	return out
}

// TestC15_Random: arrays up to length 8 under the same templates.
func TestC15_Random(t *testing.T) {
	rec := begin(t, "C15", "rapid: arrays of 0..8 members over numbers (incl. fractions whose sums depend on the order of addition), strings, booleans, nested arrays and objects with duplicates and value-equal-but-kind-different members, under the 42 templates (literal or input member); oracle = reference implementations (sum in left-to-right float order, mean of that sum); non-trivial = >= 2 members; distinct by template + array")
	defer finish(t, rec)
	templates := c15Templates()
	rapidRun(t, rec, 30000, 400000, func(rt *rapid.T) {
		arr := genC15Array(rt)
		tpl := rapid.SampledFrom(templates).Draw(rt, "template")
		doc := val.O(map[string]val.Value{"a": val.A(arr...)})
		operand := jsonLit(val.A(arr...))
		if rapid.Bool().Draw(rt, "member") {
			operand = ast.PathN(ast.VarN("$"), ast.NameN("a"))
		}
		m, c := c15Judge(rec, tpl.mk(operand), doc, tpl.name+"|"+val.Canon(val.A(arr...)), len(arr) >= 2)
		rec.Class("template_" + tpl.name)
		if m != "" && rec.Fail(c, m) {
			rt.Fatalf("%s\n  expr: %s\n  input: %s", m, c.Text, c.Input)
		}
	})
}

func shuffleCheck(c evalCase) string {
	o := port.Run(c.Text, c.Input)
	in, err := val.ParseJSON(c.Input)
	if err != nil {
		return ""
	}
	arr := in.O["a"]
	var want []val.Value
	switch arr.K {
	case val.Arr:
		want = arr.A
	default:
		want = []val.Value{arr}
	}
	if len(want) == 0 {
		// $shuffle($.a) of an empty array: the path yields no value
		if o.Kind != port.KUndefined && !(o.Kind == port.KValue && o.Val.K == val.Arr && len(o.Val.A) == 0) {
			return "$shuffle of nothing is " + o.String()
		}
		return ""
	}
	if o.Kind != port.KValue || o.Val.K != val.Arr {
		return "$shuffle is " + o.String()
	}
	if !multisetEqual(o.Val.A, want) {
		return fmt.Sprintf("$shuffle returned %s, which is not a permutation of %s", o.Repr, val.Canon(val.A(want...)))
	}
	return ""
}

// TestC15_Shuffle: $shuffle returns a permutation (nothing dropped, duplicated or invented).
func TestC15_Shuffle(t *testing.T) {
	rec := begin(t, "C15", "rapid: $shuffle on arrays of 0..8 members (duplicates, nested arrays, objects) and on scalars; oracle = permutation predicate (multiset equality with the input); non-trivial = >= 2 members; distinct by array")
	defer finish(t, rec)
	rapidRun(t, rec, 8000, 100000, func(rt *rapid.T) {
		arr := genC15Array(rt)
		var a val.Value = val.A(arr...)
		if rapid.IntRange(0, 9).Draw(rt, "scalar") == 0 {
			a = val.S("solo")
		}
		c := evalCase{Text: "$shuffle($.a)", Input: val.JSON(val.O(map[string]val.Value{"a": a}))}
		m := shuffleCheck(c)
		rec.Case(c.Input, len(arr) >= 2, func() interface{} { return c })
		if m != "" && rec.Fail(c, m) {
			rt.Fatalf("%s\n  input: %s", m, c.Input)
		}
	})
}
