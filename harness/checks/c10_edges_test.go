package checks

// C10, two enumerated sub-domains the chaotic generator reaches only rarely:
// arithmetic and aggregates over numbers at the edges of the double range (a
// result must be a finite number or an error, and EvalBytes must agree), and
// object transformations whose update clause refers to the matched object at
// any nesting depth (the result must stay acyclic and encodable).

import (
	"encoding/json"
	"fmt"
	"sort"
	"strings"
	"testing"

	"verif/harness/internal/gen"

	"verif/harness/internal/port"
	"verif/harness/internal/stats"
)

func init() {
	replay := func(raw json.RawMessage) string {
		var c c10Case
		if err := json.Unmarshal(raw, &c); err != nil {
			return "bad case: " + err.Error()
		}
		m, _ := c10Run(c)
		return m
	}
	registerReplay("TestC10_NumericEdges", replay)
	registerReplay("TestC10_TransformSelfReference", replay)
	registerReplay("TestC10_EmptyResults", replay)
	registerReplay("TestC10_FunctionValuesAndStrings", replay)
	registerReplay("TestC10_ContextForms", replay)
}

var c10EdgeNumbers = []string{"1.7e308", "-1.7e308", "1e308", "-1e308", "8.9e307", "1.7976931348623157e308", "5e-324", "-5e-324", "2.2250738585072014e-308", "1", "-1", "0", "9007199254740993", "1e-320", "3", "0.5"}

var c10EdgePrograms = []string{
	`$sum(a)`, `$average(a)`, `$max(a)`, `$min(a)`, `$sum(a) - $sum(a)`, `$average([a[0], a[1]])`, `$average(a) * 2`,
	`a[0] + a[1]`, `a[0] - a[1]`, `a[0] * a[1]`, `a[0] / a[1]`, `a[0] % a[1]`, `-a[0] - a[1]`, `a[0] + a[1] + a[2]`, `a[0] * a[1] * a[2]`, `(a[0] - a[1]) / a[2]`,
	`$power(a[0], 2)`, `$power(a[0], a[1])`, `$power(2, a[0])`, `$sqrt(a[0])`, `$abs(a[0]) + $abs(a[1])`, `$round(a[0], -300)`, `$round(a[0], -308)`, `$round(a[0], -307)`, `$round(a[0] + a[1], -306)`, `$round(a[0], 320)`, `$floor(a[0] * a[1])`, `$ceil(a[0] * 10)`, `$round(a[0] * 10, 2)`, `$floor(a[0]) + 1`, `$ceil(a[0] / a[1])`,
	`$reduce(a, function($x, $y){$x + $y})`, `$reduce(a, function($x, $y){$x * $y})`, `$map(a, function($v){$v * 10})`, `$map(a, function($v){$v / 1e-10})`, `$sum($map(a, function($v){$v * 2}))`,
	`$number($string(a[0]) & "0")`, `$number($string(a[0]) & "e10")`, `$number("-Infinity")`, `$number("Infinity")`, `$number("-inf")`, `$number("NaN")`, `$number("-1e999")`, `[$number("-INF")]`, `{"v": $number("+Inf")}`, `$number("0x1p1024")`, `$formatNumber(a[0] * a[1], "0.0")`, `$string(a[0] * 10)`, `$formatBase(a[0] * 2, 16)`,
	`{"s": $sum(a), "m": $average(a)}`, `[a[0] * 2, a[1] * 2]`, `$sort(a)[0] + $sort(a)[-1]`, `a^(>$)[0] * 2`, `$zip(a, a).($[0] + $[1])`, `$toMillis($fromMillis(a[0]))`, `$fromMillis(a[0] * a[1])`,
}

// TestC10_NumericEdges: results computed from numbers at the edges of the double range.
func TestC10_NumericEdges(t *testing.T) {
	rec := begin(t, "C10", "enumerated: 42 arithmetic / aggregate / conversion programs x every ordered triple over 16 numbers at the edges of the double range (largest, smallest, subnormal, opposite signs, > 2^53, plus small numbers) as the input array; oracle: the result is a finite number (or container of such) or an error, never Inf/NaN, and EvalBytes agrees with Eval; non-trivial = all; distinct by program + input")
	defer finish(t, rec)
	shard, nshards := stats.Shard()
	E := c10EdgeNumbers
	n := 0
	quick := stats.Tier() != "thorough"
	for i, x := range E {
		for j, y := range E {
			for k, z := range E {
				// quick tier: triples whose third member is one of four values
				if quick && k%4 != (i+j)%4 {
					continue
				}
				input := fmt.Sprintf(`{"a":[%s,%s,%s]}`, x, y, z)
				for _, p := range c10EdgePrograms {
					n++
					if n%nshards != shard {
						continue
					}
					c := c10Case{Text: p, Input: input, Det: true}
					m, info := c10Run(c)
					rec.Case(p+"|"+input, true, func() interface{} {
						return map[string]interface{}{"expr": p, "input": input, "outcome": info.kind}
					})
					rec.Class("outcome_" + info.kind)
					if m != "" && rec.FailNow(c, m) >= 6 {
						return
					}
				}
			}
		}
	}
	rec.Exhaustive("edge_number_triples_x_programs", n)
}

// TestC10_TransformSelfReference: update clauses that mention the matched
// object (or the whole argument) inside nested constructors.
func TestC10_TransformSelfReference(t *testing.T) {
	rec := begin(t, "C10", "enumerated: object transformations | pattern | update [, delete] | with 5 patterns x 24 update clauses that refer to the matched object $, the argument $$ or a variable bound to either, directly and nested 1..3 constructors deep (objects, arrays, function results) x 4 inputs x {~>, direct call, applied twice, inside $map}; oracle: the result is acyclic, built from JSON values only, marshals, and EvalBytes agrees; non-trivial = all; distinct by program + input")
	defer finish(t, rec)
	patterns := []string{`$`, `*`, `o`, `**`, `$$.o`}
	refs := []string{`$`, `$$`, `$v`}
	var updates []string
	for _, r := range refs {
		updates = append(updates,
			`{"self": `+r+`}`,
			`{"h": [`+r+`]}`,
			`{"prev": {"snapshot": `+r+`}}`,
			`{"prev": {"a": {"b": `+r+`}}}`,
			`{"prev": [[`+r+`]]}`,
			`{"prev": {"list": [1, {"deep": `+r+`}]}}`,
			`{"m": $merge([`+r+`, {"x": 1}])}`,
			`{"k": $each(`+r+`, function($val, $key){{"key": $key, "of": `+r+`}})}`,
		)
	}
	inputs := []string{`{"a":1}`, `{"a":1,"o":{"b":2}}`, `{"o":{"o":{"c":3}},"l":[{"d":4}]}`, `[{"a":1},{"o":{"e":5}}]`}
	shapes := []string{
		`($v := $; $ ~> |P|U|)`,
		`($v := $; |P|U|($))`,
		`($v := $; $ ~> |P|U| ~> |P|U|)`,
		`($v := $; $map([$], |P|U|))`,
		`($v := $; $ ~> |P|U, "a"|)`,
		`($v := o; $ ~> |P|U|)`,
	}
	n := 0
	for _, sh := range shapes {
		for _, p := range patterns {
			for _, u := range updates {
				for _, in := range inputs {
					n++
					text := sh
					text = replaceAllStr(text, "P", p)
					text = replaceAllStr(text, "U", u)
					// $each, * and ** expose Go map order: no Eval-vs-EvalBytes comparison there
					c := c10Case{Text: text, Input: in, Det: p != "*" && p != "**" && !strings.Contains(u, "$each")}
					m, info := c10Run(c)
					rec.Case(text+"|"+in, true, func() interface{} {
						return map[string]interface{}{"expr": text, "input": in, "outcome": info.kind}
					})
					rec.Class("outcome_" + info.kind)
					if info.kind == port.KPanic {
						rec.Class("panic_left_to_C09")
					}
					if m != "" && rec.FailNow(c, m) >= 6 {
						return
					}
				}
			}
		}
	}
	rec.Exhaustive("self_referential_transforms", n)
}

// TestC10_EmptyResults: built-ins whose result has no members. An empty
// result must be one JSON value - an empty array / object or 'no value' -
// never a nil slice or map (an array to the evaluator, null to the encoder).
func TestC10_EmptyResults(t *testing.T) {
	rec := begin(t, "C10", "enumerated: 40 calls of array- and object-returning built-ins whose result is empty (nothing kept, empty argument, no match), bare, inside an array constructor, as an object member, stringified and counted, on 3 inputs; oracle: the strict JSON walk (a nil slice/map is rejected), json.Marshal, Eval = EvalBytes, $exists coherence; non-trivial = all; distinct by program + input")
	defer finish(t, rec)
	calls := []string{
		`$filter(a, function($v){false})`, `$filter([], function($v){true})`, `$filter(zz, function($v){true})`, `$map([], function($v){$v})`, `$map(a, function($v){zz})`,
		`$sift(o, function($v){false})`, `$sift({}, function($v){true})`, `$spread({})`, `$spread([])`, `$keys({})`, `$keys([])`, `$each({}, function($v){$v})`, `$each(o, function($v){zz})`,
		`$distinct([])`, `$reverse([])`, `$sort([])`, `$sort([], function($l, $r){$l > $r})`, `$append([], [])`, `$zip([], [])`, `$zip(a, [])`, `$shuffle([])`, `$merge([])`, `$merge([{}])`,
		`$split("", "x", 0)`, `$split("abc", "b", 0)`, `$match("a", /b/)`, `$match("a", /a/, 0)`, `a[$ > 100]`, `a[10]`, `o.*[zz]`, `[1..0]`, `$lookup(o, "zz")`, `$lookup([], "zz")`,
		`$reduce([], function($x, $y){$x})`, `$single([1], function($v){$v = 1}) ~> $filter(function($v){false})`, `$string($filter(a, function($v){false}))`, `$count($filter(a, function($v){false}))`,
		`$append($filter(a, function($v){false}), $map([], function($v){$v}))`, `a^(zz)[zz]`, `o{zz: 1}`,
	}
	wraps := []string{`X`, `[X]`, `{"k": X}`, `[X, X]`, `$string(X)`, `$count(X)`, `$exists(X)`, `$type(X)`, `X = []`, `$append(X, X)`}
	inputs := []string{`{"a":[1,2,3],"o":{"x":1}}`, `{"a":[],"o":{}}`, `[]`}
	n := 0
	for _, call := range calls {
		for _, w := range wraps {
			for _, in := range inputs {
				n++
				text := strings.ReplaceAll(w, "X", call)
				c := c10Case{Text: text, Input: in, Det: !strings.Contains(call, "shuffle")}
				m, info := c10Run(c)
				rec.Case(text+"|"+in, true, func() interface{} {
					return map[string]interface{}{"expr": text, "input": in, "outcome": info.kind}
				})
				rec.Class("outcome_" + info.kind)
				if m != "" && rec.FailNow(c, m) >= 6 {
					return
				}
			}
		}
	}
	rec.Exhaustive("empty_result_calls", n)
}

// TestC10_FunctionValuesAndStrings: every kind of function value as (part
// of) a result stands for the empty string, and every string is encoded as
// JSON encodes it, at top level and nested.
func TestC10_FunctionValuesAndStrings(t *testing.T) {
	rec := begin(t, "C10", "enumerated: every built-in function (all names of the base environment incl. $now/$millis), a lambda, a partial application, a composition, a transform and a regex as a bare value, in an array, as an object member and nested; and 40 strings with control characters, DEL, quotes, backslashes, non-BMP and non-printable code points, invalid-in-JSON-if-unescaped characters, as the whole result and nested, computed by $, path, &, $string and $uppercase; oracle: strict JSON walk, encoding equals the value with functions as \"\", Eval = EvalBytes (valid JSON); non-trivial = all; distinct by program + input")
	defer finish(t, rec)
	var fns []string
	for name := range gen.BuiltinArity {
		fns = append(fns, "$"+name)
	}
	sort.Strings(fns)
	fns = append(fns, `function($x){$x}`, `$substring(?, 1)`, `($uppercase ~> $trim)`, `|a|{"b":1}|`, `/ab+/i`, `$now`, `$millis`, `($f := function(){1}; $f)`, `$map(?, $string)`)
	n := 0
	run := func(text, in string) bool {
		n++
		c := c10Case{Text: text, Input: in, Det: true}
		m, info := c10Run(c)
		rec.Case(text+"|"+in, true, func() interface{} {
			return map[string]interface{}{"expr": text, "input": in, "outcome": info.kind}
		})
		rec.Class("outcome_" + info.kind)
		return !(m != "" && rec.FailNow(c, m) >= 6)
	}
	for _, f := range fns {
		for _, w := range []string{`X`, `[X]`, `{"f": X}`, `[1, [X, "s"], {"k": [X]}]`, `[X, X]`, `$append([X], 1)`,
			// function values passing through the array and object functions
			`$distinct([X, 1, "a", 1, X])`, `$reverse([1, X])`, `$sort([X, X], function($l, $r){false})`, `$zip([X], [1])`, `$shuffle([X])`, `$filter([X, 1], function($v){true})`,
			`$map([X], function($v){$v})`, `$reduce([[X], [1]], $append)`, `$each({"a": X}, function($v){$v})`, `$sift({"a": X, "b": 1}, function($v){true})`, `$merge([{"a": X}, {"b": 1}])`,
			`$spread({"a": X})`, `$lookup({"a": X}, "a")`, `$single([X], function($v){true})`, `({"a": X} ~> |$|{"b": 1}|)`, `[X][0]`, `{"a": X}.a`, `$append(X, X)`} {
			if !run(strings.ReplaceAll(w, "X", f), `{"a":{"b":2}}`) {
				return
			}
		}
	}
	strs := []string{"bell \a", "vt\v", "\x00", "\x01\x02", "\x1f", "\x7f", "del\x7fx", "\u0080", "\u0085", " ", " ", " ", "\xef\xbb\xbf", "�", "\U0001f600", "\U000e0001", "\U0010ffff", "\U000f0000",
		`"`, `\`, `\"`, `\\`, `/`, "<>&", "\t\n\r", "\b\f", "é", "日本", "à", "‍", "‮", "x\x00y", "'", "`", "${}", "\u001b[0m", " ", "", "퟿", ""}
	for _, s := range strs {
		js, _ := json.Marshal(s)
		in := `{"s":` + string(js) + `,"t":"x"}`
		for _, p := range []string{`s`, `$.s`, `s & ""`, `t & s & t`, `$string(s)`, `$uppercase(s)`, `[s]`, `{"k": s}`, `{s: 1}`, `$join([s, s], s)`, `$substring(s, 0)`, `$pad(s, 3)`} {
			if !run(p, in) {
				return
			}
		}
		if !run(`$`, string(js)) || !run(`$ & $`, string(js)) {
			return
		}
	}
	rec.Exhaustive("function_values_and_strings", n)
}

// c10ContextForms: every built-in in its context-defaulting form, with the
// explicit form it stands for.
var c10ContextForms = [][2]string{
	{`$string()`, `$string($)`}, {`$length()`, `$length($)`}, {`$uppercase()`, `$uppercase($)`}, {`$lowercase()`, `$lowercase($)`}, {`$trim()`, `$trim($)`},
	{`$number()`, `$number($)`}, {`$abs()`, `$abs($)`}, {`$floor()`, `$floor($)`}, {`$ceil()`, `$ceil($)`}, {`$round()`, `$round($)`}, {`$sqrt()`, `$sqrt($)`},
	{`$boolean()`, `$boolean($)`}, {`$not()`, `$not($)`}, {`$keys()`, `$keys($)`}, {`$spread()`, `$spread($)`}, {`$type()`, `$type($)`}, {`$formatBase()`, `$formatBase($)`},
	{`$base64encode()`, `$base64encode($)`}, {`$base64decode()`, `$base64decode($)`}, {`$encodeUrl()`, `$encodeUrl($)`}, {`$encodeUrlComponent()`, `$encodeUrlComponent($)`},
	{`$decodeUrl()`, `$decodeUrl($)`}, {`$decodeUrlComponent()`, `$decodeUrlComponent($)`}, {`$fromMillis()`, `$fromMillis($)`}, {`$toMillis()`, `$toMillis($)`},
	{`$sift(function($v){true})`, `$sift($, function($v){true})`},
	{`$substring(1)`, `$substring($, 1)`}, {`$substring(1, 2)`, `$substring($, 1, 2)`}, {`$substringBefore("b")`, `$substringBefore($, "b")`}, {`$substringAfter("b")`, `$substringAfter($, "b")`},
	{`$pad(5)`, `$pad($, 5)`}, {`$pad(5, "é-")`, `$pad($, 5, "é-")`}, {`$contains("b")`, `$contains($, "b")`}, {`$contains(/b/)`, `$contains($, /b/)`},
	{`$split("b")`, `$split($, "b")`}, {`$split(/b/, 1)`, `$split($, /b/, 1)`}, {`$match(/b/)`, `$match($, /b/)`}, {`$match(/b/, 1)`, `$match($, /b/, 1)`},
	{`$replace("b", "c")`, `$replace($, "b", "c")`}, {`$replace(/b/, "c", 1)`, `$replace($, /b/, "c", 1)`}, {`$formatNumber("0.0")`, `$formatNumber($, "0.0")`}, {`$power(2)`, `$power($, 2)`},
}

// TestC10_ContextForms: a built-in called in its context-defaulting form gives
// what its explicit form gives - in particular 'no value' (ErrUndefined), not a
// value made from nothing, when there is no context item.
func TestC10_ContextForms(t *testing.T) {
	rec := begin(t, "C10", "enumerated: 44 built-in calls in context-defaulting form against their explicit form f($, ...), evaluated with no input (Eval(nil) / EvalBytes(\"null\")), in a path step over an absent member, in the value of a grouping over nothing, and with 6 context items (string, number, boolean, array, object, function-free values); oracle: both forms have the same outcome, and every C10 predicate (ErrUndefined iff no value, $exists coherence, Eval = EvalBytes) holds for each; non-trivial = all; distinct by program + input")
	defer finish(t, rec)
	inputs := []string{``, `null`, `"abc"`, `4`, `true`, `["abc", "b"]`, `{"a": "abc", "b": 2}`, `{}`}
	wraps := []string{`X`, `zz.X`, `zz{"k": X}`, `[X]`, `$.X`, `(X)`}
	n := 0
	for _, pair := range c10ContextForms {
		for _, w := range wraps {
			for _, in := range inputs {
				n++
				t1, t2 := strings.ReplaceAll(w, "X", pair[0]), strings.ReplaceAll(w, "X", pair[1])
				c1, c2 := c10Case{Text: t1, Input: in, Det: !strings.Contains(pair[0], "each") && !strings.Contains(pair[0], "sift") && !strings.Contains(pair[0], "keys") && !strings.Contains(pair[0], "spread")}, c10Case{Text: t2, Input: in}
				c2.Det = c1.Det
				m, info := c10Run(c1)
				rec.Case(t1+"|"+in, true, func() interface{} {
					return map[string]interface{}{"expr": t1, "input": in, "outcome": info.kind}
				})
				rec.Class("outcome_" + info.kind)
				if m == "" {
					if m2, info2 := c10Run(c2); m2 == "" && info2.kind != info.kind && info.kind != port.KPanic && info2.kind != port.KPanic {
						m = fmt.Sprintf("%s gives %s but its explicit form %s gives %s (input %q)", t1, info.kind, t2, info2.kind, in)
					}
				}
				if m != "" && rec.FailNow(c1, m) >= 6 {
					return
				}
			}
		}
	}
	rec.Exhaustive("context_forms_x_wrappers_x_inputs", n)
}

func replaceAllStr(s, old, new string) string {
	out := ""
	for i := 0; i < len(s); i++ {
		if s[i:i+1] == old && (i == 0 || s[i-1] == '|') {
			out += new
			continue
		}
		out += s[i : i+1]
	}
	return out
}
