package checks

// C11 — JSON texts are expressions that denote themselves. Oracle:
// encoding/json's decoding of the same text (numbers as float64 bits, sign of
// zero included; arrays ordered, objects unordered), on several inputs; the
// single-quoted respelling; and the error class (malformed escapes, unpaired
// surrogate escapes, numbers outside the double range are compile errors).

import (
	"bytes"
	"encoding/json"
	"fmt"
	"math"
	"strings"
	"testing"
	"unicode/utf8"

	"pgregory.net/rapid"

	"verif/harness/internal/port"
	"verif/harness/internal/stats"
)

type c11Case struct {
	Text      string `json:"text"`
	WantError bool   `json:"want_error,omitempty"` // error class: must be a compile error
}

func bitsEqual(a, b interface{}) bool {
	switch x := a.(type) {
	case float64:
		y, ok := b.(float64)
		return ok && math.Float64bits(x) == math.Float64bits(y)
	case []interface{}:
		y, ok := b.([]interface{})
		if !ok || len(x) != len(y) {
			return false
		}
		for i := range x {
			if !bitsEqual(x[i], y[i]) {
				return false
			}
		}
		return true
	case map[string]interface{}:
		y, ok := b.(map[string]interface{})
		if !ok || len(x) != len(y) {
			return false
		}
		for k, v := range x {
			w, has := y[k]
			if !has || !bitsEqual(v, w) {
				return false
			}
		}
		return true
	case nil:
		return b == nil
	}
	return a == b
}

// hasDuplicateKeysOrLoneSurrogate walks the token stream of a valid JSON text.
func jsonTextProblems(text string) (dupKeys bool, loneSurrogate bool) {
	// lone surrogate escapes: \uD800-\uDFFF not forming a pair
	for i := 0; i+5 < len(text); i++ {
		if text[i] == '\\' && text[i+1] == '\\' {
			i++
			continue
		}
		if text[i] == '\\' && text[i+1] == 'u' {
			var r rune
			if _, err := fmt.Sscanf(strings.ToLower(text[i+2:i+6]), "%04x", &r); err != nil {
				continue
			}
			switch {
			case r >= 0xD800 && r <= 0xDBFF:
				var r2 rune
				if i+11 < len(text)+0 && i+12 <= len(text) && text[i+6] == '\\' && text[i+7] == 'u' {
					fmt.Sscanf(strings.ToLower(text[i+8:i+12]), "%04x", &r2)
				}
				if r2 >= 0xDC00 && r2 <= 0xDFFF {
					i += 11
					continue
				}
				loneSurrogate = true
			case r >= 0xDC00 && r <= 0xDFFF:
				loneSurrogate = true
			}
			i += 5
		}
	}
	dec := json.NewDecoder(strings.NewReader(text))
	type frame struct {
		obj  bool
		keys map[string]bool
		key  bool
	}
	var stack []*frame
	for {
		tok, err := dec.Token()
		if err != nil {
			break
		}
		top := func() *frame {
			if len(stack) == 0 {
				return nil
			}
			return stack[len(stack)-1]
		}
		switch t := tok.(type) {
		case json.Delim:
			switch t {
			case '{':
				if f := top(); f != nil && f.obj {
					f.key = true
				}
				stack = append(stack, &frame{obj: true, keys: map[string]bool{}, key: true})
			case '[':
				if f := top(); f != nil && f.obj {
					f.key = true
				}
				stack = append(stack, &frame{})
			case '}', ']':
				stack = stack[:len(stack)-1]
			}
		case string:
			if f := top(); f != nil && f.obj {
				if f.key {
					if f.keys[t] {
						dupKeys = true
					}
					f.keys[t] = true
					f.key = false
				} else {
					f.key = true
				}
			}
		default:
			if f := top(); f != nil && f.obj {
				f.key = true
			}
		}
	}
	return
}

var c11Inputs = []string{"null", "{}", "[]", `{"a":[1,{"b":"x"}],"c":true}`, `[1,2]`, `"s"`}

// c11Run judges one JSON text; "" = holds.
func c11Run(c c11Case) string {
	e, o := port.Compile(c.Text)
	if c.WantError {
		if o == nil {
			out, err, _ := evalBytesRaw(e, []byte("null"))
			return fmt.Sprintf("%q must be a compile error, but it compiles and evaluates to %s (%v)", c.Text, out, err)
		}
		if o.Kind == port.KPanic {
			return "Compile panicked: " + o.Msg
		}
		return ""
	}
	var want interface{}
	if err := json.Unmarshal([]byte(c.Text), &want); err != nil {
		return "" // not in the domain
	}
	if o != nil {
		return fmt.Sprintf("the JSON text %q does not compile: %s", c.Text, o.String())
	}
	for _, in := range c11Inputs {
		out, err, p := evalBytesRaw(e, []byte(in))
		if p != "" {
			return fmt.Sprintf("evaluating the JSON text %q on %s panicked: %s", c.Text, in, p)
		}
		if err != nil {
			return fmt.Sprintf("the JSON text %q evaluated on %s gives the error %v", c.Text, in, err)
		}
		var got interface{}
		if uerr := json.Unmarshal(out, &got); uerr != nil {
			return fmt.Sprintf("the JSON text %q evaluated on %s gives invalid JSON %q", c.Text, in, out)
		}
		if !bitsEqual(got, want) {
			w, _ := json.Marshal(want)
			return fmt.Sprintf("the JSON text %q evaluated on %s denotes %s, a JSON parser reads %s", c.Text, in, out, w)
		}
	}
	// the single-quoted respelling denotes the same value
	if sq, ok := singleQuoted(c.Text); ok {
		e2, o2 := port.Compile(sq)
		if o2 != nil {
			return fmt.Sprintf("the single-quoted respelling %q does not compile: %s", sq, o2.String())
		}
		out, err, _ := evalBytesRaw(e2, []byte("null"))
		var got interface{}
		if err != nil || json.Unmarshal(out, &got) != nil || !bitsEqual(got, want) {
			w, _ := json.Marshal(want)
			return fmt.Sprintf("the single-quoted respelling %q denotes %s (%v), the double-quoted text %s", sq, out, err, w)
		}
	}
	return ""
}

// singleQuoted respells every string literal of a JSON text with single
// quotes, when no string contains a single quote or an escaped double quote.
func singleQuoted(text string) (string, bool) {
	if strings.Contains(text, "'") {
		return "", false
	}
	// an escaped double quote stays what it is: \" is an escape in either style
	var sb strings.Builder
	in := false
	for i := 0; i < len(text); i++ {
		ch := text[i]
		switch {
		case ch == '\\' && in:
			sb.WriteByte(ch)
			i++
			if i < len(text) {
				sb.WriteByte(text[i])
			}
		case ch == '"':
			in = !in
			sb.WriteByte('\'')
		default:
			sb.WriteByte(ch)
		}
	}
	return sb.String(), strings.Contains(text, `"`)
}

func init() {
	replay := func(raw json.RawMessage) string {
		var c c11Case
		if err := json.Unmarshal(raw, &c); err != nil {
			return "bad case: " + err.Error()
		}
		return c11Run(c)
	}
	for _, n := range []string{"TestC11_StringUnits", "TestC11_Random", "TestC11_ErrorClass", "TestC11_Findings", "FuzzC11JSONText"} {
		registerReplay(n, replay)
	}
}

var c11Units = []string{
	`\"`, `\\`, `\/`, `\b`, `\f`, `\n`, `\r`, `\t`, "\\" + "u0041", "\\" + "u00e9", "\\" + "u0000", "\\" + "u001f", "\\" + "u2028", "\\" + "ud83d" + "\\" + "ude00", "\\" + "uD83D" + "\\" + "uDE00", "\\" + "uffff", "\\" + "ufffd", "\\" + "uFFFD", "\\" + "ufffe", "\\" + "ud7ff", "\\" + "ue000", "\\" + "ufeff",
	"a", "é", "€", "😀", " ", "$", "`", ".", "[", "{", "(", "/", "'", "?", ":", "|", "&", "u", "\\" + "u0031", "0",
	// what opens and closes a comment in other languages is text in a string
	"/*", "*/", "//", "#",
	// the replacement character itself, written raw (three valid bytes), and the
	// last code point
	"\xef\xbf\xbd", "\xf4\x8f\xbf\xbf",
}

func c11Nontrivial(text string) bool {
	if strings.ContainsAny(text, "\\[{") {
		return true
	}
	if !utf8.ValidString(text) {
		return false
	}
	for _, r := range text {
		if r > 127 {
			return true
		}
	}
	return strings.ContainsAny(text, ".eE-")
}

// TestC11_StringUnits: every string of <= 3 units over the unit alphabet.
func TestC11_StringUnits(t *testing.T) {
	rec := begin(t, "C11", "exhaustive: every JSON string of 0..3 units over a 48-unit alphabet (comment markers of other languages, the raw replacement character and U+10FFFF, every two-character escape, \\uXXXX for BMP code points incl. controls, surrogate pairs in lower and upper case hex, raw BMP and astral characters, JSONata metacharacters), as a top-level text and inside an array and an object; oracle = encoding/json; evaluated on six inputs; plus the single-quoted respelling; non-trivial = contains an escape, a non-ASCII character or a container; distinct by text")
	defer finish(t, rec)
	shard, nshards := stats.Shard()
	n := 0
	emit := func(s string) bool {
		n++
		if n%nshards != shard {
			return true
		}
		for _, text := range []string{`"` + s + `"`, `["` + s + `", {"k` + s + `": "` + s + `"}]`} {
			c := c11Case{Text: text}
			m := c11Run(c)
			rec.Case(text, c11Nontrivial(text), func() interface{} { return c })
			if m != "" && rec.FailNow(c, m) >= 8 {
				return false
			}
		}
		return true
	}
	if !emit("") {
		return
	}
	for _, a := range c11Units {
		if !emit(a) {
			return
		}
		for _, b := range c11Units {
			if !emit(a + b) {
				return
			}
			if Thorough() {
				for _, c := range c11Units {
					if !emit(a + b + c) {
						return
					}
				}
			}
		}
	}
	if !Thorough() {
		// quick tier: triples over a 12-unit sub-alphabet
		sub := []string{`\"`, `\\`, `\n`, `é`, `😀`, "a", "😀", "$", "'", "/", `\u0000`, "{", "/*", "*/"}
		for _, a := range sub {
			for _, b := range sub {
				for _, c := range sub {
					if !emit(a + b + c) {
						return
					}
				}
			}
		}
	}
	rec.Exhaustive("json_strings_of_units", n)
	if nshards == 1 {
		rec.AllExhaustive()
	}
}

func genJSONNumber() *rapid.Generator[string] {
	return rapid.Custom(func(t *rapid.T) string {
		var sb strings.Builder
		if rapid.IntRange(0, 3).Draw(t, "neg") == 0 {
			sb.WriteByte('-')
		}
		switch rapid.IntRange(0, 5).Draw(t, "intKind") {
		case 0:
			sb.WriteString("0")
		case 1:
			sb.WriteString(rapid.SampledFrom([]string{"9007199254740993", "12345678901234567890", "18446744073709551616", "123456789012345678", "17976931348623157" + strings.Repeat("0", 292)}).Draw(t, "big"))
		default:
			sb.WriteString(fmt.Sprint(rapid.IntRange(1, 99999).Draw(t, "int")))
		}
		if rapid.Bool().Draw(t, "frac") {
			sb.WriteByte('.')
			sb.WriteString(rapid.StringMatching(`[0-9]{1,17}`).Draw(t, "fracDigits"))
		}
		if rapid.IntRange(0, 2).Draw(t, "exp") == 0 {
			sb.WriteString(rapid.SampledFrom([]string{"e", "E"}).Draw(t, "e"))
			sb.WriteString(rapid.SampledFrom([]string{"", "+", "-"}).Draw(t, "esign"))
			sb.WriteString(rapid.SampledFrom([]string{"0", "1", "5", "10", "22", "23", "100", "300", "307", "308", "309", "323", "324", "325", "00", "007"}).Draw(t, "edigits"))
		}
		return sb.String()
	})
}

func genJSONText(depth int) *rapid.Generator[string] {
	ws := rapid.SampledFrom([]string{"", "", "", " ", "\n", "\t", "\r\n", "  "})
	str := rapid.Map(rapid.SliceOfN(rapid.SampledFrom(c11Units), 0, 6), func(p []string) string { return `"` + strings.Join(p, "") + `"` })
	return rapid.Custom(func(t *rapid.T) string {
		k := rapid.IntRange(0, 9).Draw(t, "valueKind")
		if depth <= 0 && k >= 6 {
			k = rapid.IntRange(0, 5).Draw(t, "leafKind")
		}
		w := func() string { return ws.Draw(t, "ws") }
		switch {
		case k < 2:
			return genJSONNumber().Draw(t, "number")
		case k < 4:
			return str.Draw(t, "string")
		case k == 4:
			return rapid.SampledFrom([]string{"true", "false", "null"}).Draw(t, "lit")
		case k == 5:
			return rapid.SampledFrom([]string{"[]", "{}", "[ ]", "{ }", "[[]]", "[{}]", "[[[]]]", `{"":[]}`}).Draw(t, "empty")
		case k < 8:
			n := rapid.IntRange(0, 5).Draw(t, "arrLen")
			parts := make([]string, n)
			for i := range parts {
				parts[i] = w() + genJSONText(depth-1).Draw(t, "item") + w()
			}
			return "[" + strings.Join(parts, ",") + "]"
		default:
			n := rapid.IntRange(0, 5).Draw(t, "objLen")
			parts := make([]string, n)
			for i := range parts {
				key := fmt.Sprintf(`"k%d`, i) + strings.Join(rapid.SliceOfN(rapid.SampledFrom(c11Units), 0, 2).Draw(t, "keyUnits"), "") + `"`
				parts[i] = w() + key + w() + ":" + w() + genJSONText(depth-1).Draw(t, "member") + w()
			}
			return "{" + strings.Join(parts, ",") + "}"
		}
	})
}

// TestC11_Random: generated JSON texts.
func TestC11_Random(t *testing.T) {
	rec := begin(t, "C11", "rapid: RFC 8259 texts of depth <= 5 and width <= 5 with unique keys: strings assembled from the unit alphabet, numbers from a grammar of all syntactic forms (sign, fraction, e/E, +/- exponent, -0, subnormals, 17 significant digits, integers > 2^53, exponents at the edges of the double range), empty and nested containers, arbitrary inter-token whitespace (space, tab, CR, LF); oracle = encoding/json (float64 bits incl. the sign of zero, arrays ordered, objects unordered) on six inputs; texts that encoding/json rejects for range are moved to the error class; non-trivial = contains an escape, a non-ASCII character, a container or a number with fraction/exponent/sign; distinct by text")
	defer finish(t, rec)
	g := genJSONText(4)
	ws := rapid.SampledFrom([]string{"", "", " ", "\n", "\t \r\n"})
	rapidRun(t, rec, 40000, 500000, func(rt *rapid.T) {
		text := ws.Draw(rt, "lead") + g.Draw(rt, "text") + ws.Draw(rt, "trail")
		c := c11Case{Text: text}
		var probe interface{}
		if err := json.Unmarshal([]byte(text), &probe); err != nil {
			if strings.Contains(err.Error(), "number") || strings.Contains(err.Error(), "range") {
				c.WantError = true // a number outside the double range
				rec.Class("number_out_of_range")
			} else {
				rec.Class("not_json")
				return
			}
		}
		if dup, lone := jsonTextProblems(text); dup || lone {
			rec.Class("skipped_duplicate_key_or_lone_surrogate")
			return
		}
		m := c11Run(c)
		rec.Case(text, c11Nontrivial(text), func() interface{} { return c })
		if m != "" && rec.Fail(c, m) {
			rt.Fatalf("%s", m)
		}
	})
}

// TestC11_ErrorClass: malformed escapes, unpaired surrogates and numbers
// outside the double range are compile errors, never silently altered values.
func TestC11_ErrorClass(t *testing.T) {
	rec := begin(t, "C11", "generated error class: strings with a malformed escape (\\x, \\u + 0..3 hex digits, \\u with a sign, separator or letter beyond f in any of the four positions, lone backslash), an unpaired high or low surrogate escape (alone, followed by text, followed by a non-surrogate escape, reversed pair), numbers outside the double range (1e309, -1e400, 2e308), each as a top-level text and nested in an array/object, with surrounding valid units; all must be compile errors; distinct by text")
	defer finish(t, rec)
	bad := []string{`\x`, `\u`, `\u1`, `\u12`, `\u123`, `\u12G4`, `\uZZZZ`, `\a`, `\0`, `\U0041`, `\ `, `\ud800`, `\udbff`, `\udc00`, `\udfff`, `\ud800a`, `\ud800\n`, `\ud800A`, `\udc00\ud800`, `\ud83d\ud83d`, `\ud800\udbff`}
	// \u followed by four characters of which one is not a hexadecimal digit:
	// every position x signs, separators and letters beyond f
	for pos := 0; pos < 4; pos++ {
		for _, ch := range []string{"+", "-", "_", " ", "x", "X", "g", "G", ".", ",", ":"} {
			hex := []string{"0", "0", "4", "1"}
			hex[pos] = ch
			bad = append(bad, `\u`+strings.Join(hex, ""))
		}
	}
	pre := []string{"", "a", `\n`, "é", `😀`}
	n := 0
	for _, b := range bad {
		for _, p := range pre {
			for _, q := range pre {
				for _, wrap := range []string{`"%s"`, `["%s"]`, `{"k": "%s"}`, `{"%s": 1}`} {
					text := fmt.Sprintf(wrap, p+b+q)
					if b == `\ud800` && strings.HasPrefix(q, `\ud83d`) {
						continue
					}
					if (b == `\u` || b == `\u1` || b == `\u12` || b == `\u123`) && q != "" && strings.ContainsRune("0123456789abcdefABCDEF", rune(q[0])) {
						continue // the following unit would complete the escape
					}
					c := c11Case{Text: text, WantError: true}
					m := c11Run(c)
					n++
					rec.Case(text, true, func() interface{} { return c })
					if m != "" && rec.FailNow(c, m) >= 8 {
						return
					}
				}
			}
		}
	}
	for _, num := range []string{"1e309", "-1e400", "2e308", "1.8e308", "123456789e301", "1E999", "[1e309]", `{"a": -1e999}`, "0.1e310"} {
		c := c11Case{Text: num, WantError: true}
		m := c11Run(c)
		n++
		rec.Case(num, true, func() interface{} { return c })
		if m != "" && rec.FailNow(c, m) >= 8 {
			return
		}
	}
	// and numbers at the edge that are still in range denote themselves
	for _, num := range []string{"1.7976931348623157e308", "-1.7976931348623157E+308", "5e-324", "4.9e-324", "2.2250738585072014e-308", "1e-400", "0e999", "-0", "-0.0e-0", "1e308", "0.000000000000000000000000000001"} {
		c := c11Case{Text: num}
		m := c11Run(c)
		n++
		rec.Case(num, true, func() interface{} { return c })
		if m != "" && rec.FailNow(c, m) >= 8 {
			return
		}
	}
	// the same magnitudes spelled with long mantissas and compensating exponents
	// (the range is a property of the value, not of the spelling): the JSON
	// decoder decides whether the text is a number in range
	zeros := func(k int) string { return strings.Repeat("0", k) }
	var spell []string
	for _, k := range []int{20, 305, 308, 309, 330, 400} {
		for _, e := range []string{"", "e-1", "e-10", "e-100", "e-400", "e1", "e+8", "E-91"} {
			spell = append(spell, "1"+zeros(k)+e, "-17"+zeros(k)+e, "9"+zeros(k)+".5"+e, "0."+zeros(k)+"1"+strings.Replace(e, "-", "", 1), "0."+zeros(k)+"1"+e)
		}
	}
	for _, num := range spell {
		for _, wrap := range []string{"%s", "[%s]", `{"k": %s}`} {
			text := fmt.Sprintf(wrap, num)
			c := c11Case{Text: text}
			var probe interface{}
			if err := json.Unmarshal([]byte(text), &probe); err != nil {
				c.WantError = true
			}
			m := c11Run(c)
			n++
			rec.Case(text, true, func() interface{} { return c })
			if c.WantError {
				rec.Class("long_spelling_out_of_range")
			} else {
				rec.Class("long_spelling_in_range")
			}
			if m != "" && rec.FailNow(c, m) >= 8 {
				return
			}
		}
	}
	rec.Exhaustive("error_class_texts", n)
}

var _ = bytes.Equal
