package checks

// Shared machinery of the differential checks: run one program (generator AST,
// normalised and printed) on one input through the library and through the
// reference evaluator and compare the outcomes.

import (
	"encoding/json"
	"fmt"
	"hash/fnv"
	"sort"

	"verif/harness/internal/ast"
	"verif/harness/internal/port"
	"verif/harness/internal/ref"
	"verif/harness/internal/val"
)

// diffCase is the replayable unit of a differential check.
type diffCase struct {
	Text      string    `json:"text"`                // printed program (what the library compiles)
	Input     string    `json:"input"`               // JSON text of the input document ("" = no input)
	Prog      *ast.Node `json:"prog"`                // normalised generator AST (what the reference evaluates)
	Unordered bool      `json:"unordered,omitempty"` // compare arrays as multisets (Go map order exposed)
	Note      string    `json:"note,omitempty"`
}

func mkDiff(prog *ast.Node, input val.Value, hasInput bool) diffCase {
	n := ast.Normalize(prog)
	c := diffCase{Text: ast.Print(n), Prog: n}
	if hasInput {
		c.Input = val.JSON(input)
	}
	return c
}

type refOutcome struct {
	Kind  string // value | undefined | error | skip
	Val   val.Value
	Err   string
	AnyEr bool // several members failed: which error is reported is unspecified
	Trace ref.Trace
	Why   string
}

func (r refOutcome) String() string {
	switch r.Kind {
	case port.KValue:
		return "value " + val.Canon(r.Val)
	case port.KError:
		if r.AnyEr {
			return "error (any kind)"
		}
		return "error " + r.Err
	}
	return r.Kind + " " + r.Why
}

func runRef(c diffCase) refOutcome {
	var input val.Value
	if c.Input != "" {
		v, err := val.ParseJSON(c.Input)
		if err != nil {
			return refOutcome{Kind: "skip", Why: "bad input: " + err.Error()}
		}
		input = v
	}
	in := ref.New(input)
	v, err := in.Run(c.Prog)
	if err != nil {
		switch {
		case err.Kind == "fuel":
			return refOutcome{Kind: "skip", Why: "fuel"}
		case len(err.Kind) > 11 && err.Kind[:11] == "unsupported", err.Kind == "bad-signature":
			return refOutcome{Kind: "skip", Why: err.Kind}
		}
		return refOutcome{Kind: port.KError, Err: err.Kind, AnyEr: err.Msg == "ambiguous", Trace: in.Trace}
	}
	if v.IsUndef() {
		return refOutcome{Kind: port.KUndefined, Trace: in.Trace}
	}
	return refOutcome{Kind: port.KValue, Val: v, Trace: in.Trace}
}

func canonSorted(v val.Value) string {
	// multiset comparison: sort every array by canonical text, recursively
	switch v.K {
	case val.Arr:
		parts := make([]string, len(v.A))
		for i, e := range v.A {
			parts[i] = canonSorted(e)
		}
		sort.Strings(parts)
		return fmt.Sprint(parts)
	case val.Obj:
		parts := make([]string, 0, len(v.O))
		for _, k := range v.Keys() {
			parts = append(parts, k+":"+canonSorted(v.O[k]))
		}
		return "{" + fmt.Sprint(parts) + "}"
	}
	return val.Canon(v)
}

// compareOutcomes returns "" when the library's outcome is the one the
// reference prescribes.
func compareOutcomes(c diffCase, p port.Outcome, r refOutcome) string {
	bad := func() string {
		return fmt.Sprintf("library: %s | reference: %s", p.String(), r.String())
	}
	switch p.Kind {
	case port.KPanic, port.KBadResult, port.KCompileError, "bad_input":
		return bad()
	}
	if p.Kind != r.Kind {
		return bad()
	}
	switch p.Kind {
	case port.KValue:
		if c.Unordered {
			if canonSorted(p.Val) != canonSorted(r.Val) {
				return bad()
			}
			return ""
		}
		if !val.Equal(p.Val, r.Val) {
			return bad()
		}
	case port.KError:
		if !r.AnyEr && p.Err != r.Err {
			return bad()
		}
	}
	return ""
}

// diffRun runs one case through both evaluators. skip=true means the reference
// could not judge the case (fuel, construct it does not model).
func diffRun(c diffCase) (p port.Outcome, r refOutcome, mismatch string, skip bool) {
	r = runRef(c)
	if r.Kind == "skip" {
		return p, r, "", true
	}
	p = port.Run(c.Text, c.Input)
	mismatch = compareOutcomes(c, p, r)
	// The reference describes what the program denotes on the input, whatever
	// the compiled expression was used for before: every fourth case is also
	// evaluated through an expression that has just been evaluated on another
	// document (same member names, other shapes and values).
	h := fnv.New32a()
	h.Write([]byte(c.Text))
	h.Write([]byte(c.Input))
	if mismatch == "" && h.Sum32()%4 == 0 && p.Kind != port.KCompileError && p.Kind != "bad_input" {
		if e, o := port.Compile(c.Text); o == nil {
			other, _ := port.DecodeJSON(diffOtherInput)
			port.Eval(e, other)
			var in interface{}
			if c.Input != "" {
				in, _ = port.DecodeJSON(c.Input)
			}
			p2 := port.Eval(e, in)
			if m2 := compareOutcomes(c, p2, r); m2 != "" {
				return p2, r, "evaluated through a compiled expression that had been evaluated on another input before: " + m2, false
			}
		}
	}
	return p, r, mismatch, false
}

const diffOtherInput = `{"a":[{"b":[7,8],"a":"first"},{"b":{"a":9},"c":[]}],"b":{"a":[1,2,3],"c":"first-b"},"c":[["x"],"y"],"items":[{"k":"q","v":41,"n":5,"g":"h"},{"k":"r","v":42,"n":6,"g":"h"}],"o":{"k":"first"},"n":99,"s":"first input","x":-1,"l":"left","r":"right"}`

func diffReplay(raw json.RawMessage) string {
	var c diffCase
	if err := json.Unmarshal(raw, &c); err != nil {
		return "bad case: " + err.Error()
	}
	_, _, m, skip := diffRun(c)
	if skip {
		return ""
	}
	return m
}

func diffSample(c diffCase, p port.Outcome) func() interface{} {
	return func() interface{} {
		return map[string]interface{}{"expr": c.Text, "input": c.Input, "outcome": p.String()}
	}
}
