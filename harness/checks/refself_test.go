package checks

// Self-test of the reference evaluator (DESIGN.md 2.3, "Trust"): the exported
// jparse AST of the human-written expressions of the repository's tests is
// converted into the generator AST and the reference is compared with the
// library on the bundled documents. These are the programs whose behaviour the
// existing suite pins, so a disagreement here is presumed to be a reference
// bug. The bridge is used for this self-test only, never as an oracle path.
//
//   go test -tags verif -run TestRefSelf -v ./checks

import (
	"fmt"
	"os"
	"sort"
	"strings"
	"testing"

	"github.com/blues/jsonata-go/jparse"

	"verif/harness/internal/ast"
	"verif/harness/internal/port"
	"verif/harness/internal/val"
)

func bridge(n jparse.Node) (*ast.Node, bool) {
	ok := true
	var conv func(n jparse.Node) *ast.Node
	list := func(ns []jparse.Node) []*ast.Node {
		out := make([]*ast.Node, len(ns))
		for i, x := range ns {
			out[i] = conv(x)
		}
		return out
	}
	conv = func(n jparse.Node) *ast.Node {
		switch n := n.(type) {
		case *jparse.StringNode:
			return ast.StrN(n.Value)
		case *jparse.NumberNode:
			return ast.NumN(n.Value)
		case *jparse.BooleanNode:
			return ast.BoolN(n.Value)
		case *jparse.NullNode:
			return ast.NullN()
		case *jparse.VariableNode:
			return ast.VarN(n.Name)
		case *jparse.NameNode:
			return ast.NameN(n.Value)
		case *jparse.PathNode:
			p := ast.PathN(list(n.Steps)...)
			if n.KeepArrays {
				p.Keep = len(n.Steps)
			}
			return p
		case *jparse.NegationNode:
			return ast.N(ast.Neg, conv(n.RHS))
		case *jparse.RangeNode:
			return ast.N(ast.Range, conv(n.LHS), conv(n.RHS))
		case *jparse.ArrayNode:
			return ast.ArrN(list(n.Items)...)
		case *jparse.ObjectNode:
			o := ast.N(ast.Obj)
			for _, p := range n.Pairs {
				o.C = append(o.C, conv(p[0]), conv(p[1]))
			}
			return o
		case *jparse.BlockNode:
			return ast.BlockN(list(n.Exprs)...)
		case *jparse.WildcardNode:
			return ast.N(ast.Wild)
		case *jparse.DescendentNode:
			return ast.N(ast.Desc)
		case *jparse.ObjectTransformationNode:
			t := ast.N(ast.Transform, conv(n.Pattern), conv(n.Updates))
			if n.Deletes != nil {
				t.C = append(t.C, conv(n.Deletes))
			}
			return t
		case *jparse.LambdaNode:
			return ast.LambdaN(n.ParamNames, "", conv(n.Body))
		case *jparse.TypedLambdaNode:
			sig := ""
			for _, p := range n.In {
				sig += p.String()
			}
			if sig == "" {
				ok = false
			}
			return ast.LambdaN(n.ParamNames, sig, conv(n.Body))
		case *jparse.PartialNode:
			return &ast.Node{K: ast.Partial, C: append([]*ast.Node{conv(n.Func)}, list(n.Args)...)}
		case *jparse.PlaceholderNode:
			return ast.N(ast.Hole)
		case *jparse.FunctionCallNode:
			return &ast.Node{K: ast.Call, C: append([]*ast.Node{conv(n.Func)}, list(n.Args)...)}
		case *jparse.PredicateNode:
			return ast.PredN(conv(n.Expr), list(n.Filters)...)
		case *jparse.GroupNode:
			g := &ast.Node{K: ast.Group, C: []*ast.Node{conv(n.Expr)}}
			for _, p := range n.ObjectNode.Pairs {
				g.C = append(g.C, conv(p[0]), conv(p[1]))
			}
			return g
		case *jparse.ConditionalNode:
			c := ast.N(ast.Cond, conv(n.If), conv(n.Then))
			if n.Else != nil {
				c.C = append(c.C, conv(n.Else))
			}
			return c
		case *jparse.AssignmentNode:
			return &ast.Node{K: ast.Assign, S: n.Name, C: []*ast.Node{conv(n.Value)}}
		case *jparse.NumericOperatorNode:
			return ast.BinN(n.Type.String(), conv(n.LHS), conv(n.RHS))
		case *jparse.ComparisonOperatorNode:
			return ast.BinN(n.Type.String(), conv(n.LHS), conv(n.RHS))
		case *jparse.BooleanOperatorNode:
			return ast.BinN(n.Type.String(), conv(n.LHS), conv(n.RHS))
		case *jparse.StringConcatenationNode:
			return ast.BinN("&", conv(n.LHS), conv(n.RHS))
		case *jparse.SortNode:
			s := &ast.Node{K: ast.Sort, C: []*ast.Node{conv(n.Expr)}}
			for _, t := range n.Terms {
				s.C = append(s.C, conv(t.Expr))
				d := ""
				if t.Dir == jparse.SortDescending {
					d = ">"
				} else if t.Dir == jparse.SortAscending {
					d = "<"
				}
				s.Dirs = append(s.Dirs, d)
			}
			return s
		case *jparse.FunctionApplicationNode:
			return ast.N(ast.Chain, conv(n.LHS), conv(n.RHS))
		}
		ok = false
		return ast.NullN()
	}
	r := conv(n)
	return r, ok
}

func hasNullDeep(v val.Value) bool {
	switch v.K {
	case val.Null:
		return true
	case val.Arr:
		for _, e := range v.A {
			if hasNullDeep(e) {
				return true
			}
		}
	case val.Obj:
		for _, e := range v.O {
			if hasNullDeep(e) {
				return true
			}
		}
	}
	return false
}

func TestRefSelf(t *testing.T) {
	if os.Getenv("VERIF_REFSELF") == "" {
		t.Skip("development self-test; set VERIF_REFSELF=1")
	}
	cp := loadCorpus()
	docs := loadTestdata()
	docs = append(docs, `{}`, `[1,2,3]`, `"5"`)
	type mm struct{ expr, doc, msg string }
	var mismatches []mm
	counts := map[string]int{}
	for _, e := range cp {
		node, err := jparse.Parse(e)
		if err != nil {
			counts["compile_error"]++
			continue
		}
		prog, ok := bridge(node)
		if !ok {
			counts["unbridged"]++
			continue
		}
		nondet := !isDeterministic(prog)
		for di, d := range docs {
			dv, _ := val.ParseJSON(d)
			c := diffCase{Text: e, Input: d, Prog: prog}
			r := runRef(c)
			if r.Kind == "skip" {
				counts["skip_"+r.Why]++
				continue
			}
			p := port.Run(e, d)
			if m := compareOutcomes(c, p, r); m != "" {
				// map order / non-determinism / null-in-input are not the reference's business
				if nondet || hasNullDeep(dv) {
					counts["ignored_nondet_or_null"]++
					continue
				}
				counts["MISMATCH"]++
				mismatches = append(mismatches, mm{e, fmt.Sprintf("doc[%d]", di), m})
			} else {
				counts["agree"]++
			}
		}
	}
	keys := make([]string, 0, len(counts))
	for k := range counts {
		keys = append(keys, k)
	}
	sort.Strings(keys)
	for _, k := range keys {
		t.Logf("%-40s %d", k, counts[k])
	}
	seen := map[string]bool{}
	shown := 0
	for _, m := range mismatches {
		if seen[m.expr] {
			continue
		}
		seen[m.expr] = true
		if shown < 60 {
			t.Logf("MISMATCH %s on %s:\n    %s", strings.TrimSpace(m.expr), m.doc, trunc(m.msg, 400))
			shown++
		}
	}
	t.Logf("distinct mismatching expressions: %d", len(seen))
}
