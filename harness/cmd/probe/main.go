// probe evaluates expressions against the library and prints the classified
// outcome: probe '<json input>' '<expr>' ['<expr>' ...]   (input "-" = none)
package main

import (
	"fmt"
	"os"

	"verif/harness/internal/port"
)

func main() {
	if len(os.Args) < 3 {
		fmt.Println("usage: probe <json|-> <expr>...")
		return
	}
	in := os.Args[1]
	if in == "-" {
		in = ""
	}
	for _, e := range os.Args[2:] {
		o := port.Run(e, in)
		fmt.Printf("%-50s => %s\n", e, o.String())
	}
}
