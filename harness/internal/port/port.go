// Package port is the adapter to the library under test: Compile/Eval under
// recover(), classification of the outcome, and the panic site.
package port

import (
	"encoding/json"
	"errors"
	"fmt"
	"runtime"
	"strings"

	jsonata "github.com/blues/jsonata-go"
	"github.com/blues/jsonata-go/jparse"

	"verif/harness/internal/val"
)

// Outcome kinds.
const (
	KValue        = "value"
	KUndefined    = "undefined"
	KError        = "error"
	KPanic        = "panic"
	KCompileError = "compile_error"
	KTimeout      = "timeout"
	KBadResult    = "bad_result" // nil error but a result that is not JSON-representable
)

// Outcome is what one Compile+Eval produced.
type Outcome struct {
	Kind string      `json:"kind"`
	Val  val.Value   `json:"-"`
	Repr string      `json:"value,omitempty"` // canonical rendering of Val
	Err  string      `json:"err,omitempty"`   // error kind
	Msg  string      `json:"msg,omitempty"`
	Site string      `json:"site,omitempty"` // innermost library frame of a panic
	Raw  interface{} `json:"-"`              // the raw Go result (value outcomes only)
}

func (o Outcome) String() string {
	switch o.Kind {
	case KValue:
		return "value " + o.Repr
	case KUndefined:
		return "undefined"
	case KError:
		return "error " + o.Err + " (" + o.Msg + ")"
	case KPanic:
		return "PANIC at " + o.Site + ": " + o.Msg
	case KCompileError:
		return "compile_error " + o.Err + " (" + o.Msg + ")"
	}
	return o.Kind + " " + o.Msg
}

var evalErrNames = map[jsonata.ErrType]string{
	jsonata.ErrNonIntegerLHS:      "ErrNonIntegerLHS",
	jsonata.ErrNonIntegerRHS:      "ErrNonIntegerRHS",
	jsonata.ErrNonNumberLHS:       "ErrNonNumberLHS",
	jsonata.ErrNonNumberRHS:       "ErrNonNumberRHS",
	jsonata.ErrNonComparableLHS:   "ErrNonComparableLHS",
	jsonata.ErrNonComparableRHS:   "ErrNonComparableRHS",
	jsonata.ErrTypeMismatch:       "ErrTypeMismatch",
	jsonata.ErrNonCallable:        "ErrNonCallable",
	jsonata.ErrNonCallableApply:   "ErrNonCallableApply",
	jsonata.ErrNonCallablePartial: "ErrNonCallablePartial",
	jsonata.ErrNumberInf:          "ErrNumberInf",
	jsonata.ErrNumberNaN:          "ErrNumberNaN",
	jsonata.ErrMaxRangeItems:      "ErrMaxRangeItems",
	jsonata.ErrIllegalKey:         "ErrIllegalKey",
	jsonata.ErrDuplicateKey:       "ErrDuplicateKey",
	jsonata.ErrClone:              "ErrClone",
	jsonata.ErrIllegalUpdate:      "ErrIllegalUpdate",
	jsonata.ErrIllegalDelete:      "ErrIllegalDelete",
	jsonata.ErrNonSortable:        "ErrNonSortable",
	jsonata.ErrSortMismatch:       "ErrSortMismatch",
}

// ErrKind classifies an evaluation error.
func ErrKind(err error) string {
	var ee *jsonata.EvalError
	if errors.As(err, &ee) {
		if n, ok := evalErrNames[ee.Type]; ok {
			return "EvalError:" + n
		}
		return fmt.Sprintf("EvalError:%d", ee.Type)
	}
	var ac *jsonata.ArgCountError
	if errors.As(err, &ac) {
		return "ArgCount"
	}
	var at *jsonata.ArgTypeError
	if errors.As(err, &at) {
		return "ArgType"
	}
	return "Other"
}

// panicSite returns the innermost frame of the library in the current
// (panicking) goroutine's stack: function name without line number.
func panicSite() string {
	pcs := make([]uintptr, 64)
	n := runtime.Callers(3, pcs)
	frames := runtime.CallersFrames(pcs[:n])
	for {
		f, more := frames.Next()
		if strings.Contains(f.Function, "github.com/blues/jsonata-go") {
			fn := f.Function
			if i := strings.LastIndex(fn, "/"); i >= 0 {
				fn = fn[i+1:]
			}
			return fn
		}
		if !more {
			break
		}
	}
	return "?"
}

// Compile compiles text under recover().
func Compile(text string) (e *jsonata.Expr, out *Outcome) {
	defer func() {
		if r := recover(); r != nil {
			e = nil
			out = &Outcome{Kind: KPanic, Msg: fmt.Sprint(r), Site: panicSite()}
		}
	}()
	e, err := jsonata.Compile(text)
	if err != nil {
		o := &Outcome{Kind: KCompileError, Msg: err.Error(), Err: "untyped"}
		var pe *jparse.Error
		if errors.As(err, &pe) {
			o.Err = fmt.Sprintf("jparse.Error:%d", pe.Type)
		}
		return nil, o
	}
	return e, nil
}

// Eval evaluates a compiled expression under recover().
func Eval(e *jsonata.Expr, input interface{}) (out Outcome) {
	defer func() {
		if r := recover(); r != nil {
			out = Outcome{Kind: KPanic, Msg: fmt.Sprint(r), Site: panicSite()}
		}
	}()
	res, err := e.Eval(input)
	if err != nil {
		if err == jsonata.ErrUndefined {
			return Outcome{Kind: KUndefined}
		}
		return Outcome{Kind: KError, Err: ErrKind(err), Msg: err.Error()}
	}
	v, verr := val.FromGo(res)
	if verr != nil {
		return Outcome{Kind: KBadResult, Msg: verr.Error(), Raw: res}
	}
	return Outcome{Kind: KValue, Val: v, Repr: val.Canon(v), Raw: res}
}

// DecodeJSON decodes an input document afresh (never share inputs between cases).
func DecodeJSON(text string) (interface{}, error) {
	var x interface{}
	if err := json.Unmarshal([]byte(text), &x); err != nil {
		return nil, err
	}
	return x, nil
}

// Run compiles text and evaluates it on a fresh decoding of inputJSON.
// An empty inputJSON means "no input" (nil).
func Run(text, inputJSON string) Outcome {
	e, o := Compile(text)
	if o != nil {
		return *o
	}
	var in interface{}
	if inputJSON != "" {
		var err error
		in, err = DecodeJSON(inputJSON)
		if err != nil {
			return Outcome{Kind: "bad_input", Msg: err.Error()}
		}
	}
	return Eval(e, in)
}

// RunWithVars is Run with variables registered on the Expr.
func RunWithVars(text, inputJSON string, vars map[string]interface{}) Outcome {
	e, o := Compile(text)
	if o != nil {
		return *o
	}
	if len(vars) > 0 {
		if err := e.RegisterVars(vars); err != nil {
			return Outcome{Kind: "bad_input", Msg: err.Error()}
		}
	}
	var in interface{}
	if inputJSON != "" {
		var err error
		in, err = DecodeJSON(inputJSON)
		if err != nil {
			return Outcome{Kind: "bad_input", Msg: err.Error()}
		}
	}
	return Eval(e, in)
}

// Same reports whether two outcomes are the same observable outcome:
// same kind, deep-equal value (objects unordered), same error kind.
func Same(a, b Outcome) bool {
	if a.Kind != b.Kind {
		return false
	}
	switch a.Kind {
	case KValue:
		return val.Equal(a.Val, b.Val)
	case KError, KCompileError:
		return a.Err == b.Err
	case KPanic:
		return a.Site == b.Site
	}
	return true
}
