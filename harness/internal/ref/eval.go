// Package ref is the reference evaluator: an independent tree-walking
// evaluator over val.Value for the generator AST. It shares no code with the
// library under test and never parses JSONata text. Its rules are the ones of
// the property statements; where a statement is silent it follows the observed
// behaviour of the (repaired) port, which DESIGN.md lists.
package ref

import (
	"math"
	"sort"

	"verif/harness/internal/ast"
	"verif/harness/internal/val"
)

// Err is an evaluation error; Kind uses the same vocabulary as port.ErrKind.
type Err struct {
	Kind string
	Msg  string
}

func (e *Err) Error() string { return e.Kind + ": " + e.Msg }

func evalErr(name string) *Err { return &Err{Kind: "EvalError:" + name} }

var (
	errFuel = &Err{Kind: "fuel"}
)

// Env is a mutable frame linked to its parent.
type Env struct {
	parent *Env
	vars   map[string]val.Value
}

func NewEnv(parent *Env) *Env { return &Env{parent: parent, vars: map[string]val.Value{}} }

func (e *Env) Bind(name string, v val.Value) { e.vars[name] = v }

func (e *Env) Lookup(name string) (val.Value, bool) {
	for f := e; f != nil; f = f.parent {
		if v, ok := f.vars[name]; ok {
			return v, true
		}
	}
	return val.U, false
}

// function payloads
type Closure struct {
	Params []string
	Typed  bool
	Sig    []Param
	Body   *ast.Node
	Env    *Env
	Ctx    val.Value
}
type Builtin struct {
	Name string
	Ctx  val.Value // context item of the call site / definition site
	Has  bool
}
type PartialFn struct {
	Fn   val.Value
	Args []*ast.Node
	Env  *Env
	Ctx  val.Value
}
type ChainFn struct{ F1, F2 val.Value }
type TransformFn struct {
	Pattern, Update, Delete *ast.Node
	Env                     *Env
}

// Trace records what an evaluation exercised (for non-triviality rules).
type Trace struct {
	MappedMany    bool // a step was evaluated over >= 2 items
	Flattened     bool // an array-valued step result was flattened into the sequence
	Dropped       bool // an absent step result was dropped
	KeepMattered  bool // the [] marker prevented a singleton collapse
	Singleton     bool // a one-item sequence collapsed to the item
	Anchored      bool // a path started at $, $$ or a variable
	Shortcut      bool // last-step single-array result returned as is
	ConsUnit      bool // an array-constructor step result was kept as a unit
	FilterMany    bool // a filter ran over >= 2 items
	FilterSubset  bool // a boolean filter kept a strict non-empty subset
	FilterIndex   bool // the positional branch was taken
	FilterSecond  bool // a second filter ran on survivors
	Grouped       bool // a group received >= 2 items
	GroupKeys     int  // max number of distinct keys in one grouping
	SortTies      bool
	SortMissing   bool
	ClosureShadow bool
	Calls         int
}

// Interp evaluates programs.
type Interp struct {
	Fuel  int
	Root  val.Value
	Trace Trace
	Base  *Env // root frame ($ bound lazily through Root)
}

// New creates an interpreter for one evaluation on the given input.
func New(input val.Value) *Interp {
	in := &Interp{Fuel: 200000, Root: input}
	in.Base = NewEnv(nil)
	return in
}

// Run evaluates the program on the interpreter's input.
func (in *Interp) Run(n *ast.Node) (v val.Value, err *Err) {
	return in.Eval(n, in.Root, in.Base)
}

func (in *Interp) tick() *Err {
	in.Fuel--
	if in.Fuel < 0 {
		return errFuel
	}
	return nil
}

// Eval evaluates one node with a context item.
func (in *Interp) Eval(n *ast.Node, ctx val.Value, env *Env) (val.Value, *Err) {
	if e := in.tick(); e != nil {
		return val.U, e
	}
	switch n.K {
	case ast.Num:
		return val.N(n.N), nil
	case ast.Str:
		return val.S(n.S), nil
	case ast.Bool:
		return val.B(n.B), nil
	case ast.Null:
		return val.NullV, nil
	case ast.Var:
		if _, bound := env.Lookup(n.S); !bound && unmodelledBuiltins[n.S] {
			return val.U, &Err{Kind: "unsupported-builtin:" + n.S}
		}
		return in.evalVar(n, ctx, env), nil
	case ast.Name:
		// a bare name is a one-step path
		return in.evalPath(&ast.Node{K: ast.Path, C: []*ast.Node{n}}, ctx, env)
	case ast.Path:
		return in.evalPath(n, ctx, env)
	case ast.Wild:
		return seqValue(wildcard(ctx), false), nil
	case ast.Desc:
		return seqValue(descendants(ctx), false), nil
	case ast.Pred:
		if n.C[0].K == ast.Name {
			// name[...] outside a path is a one-step path
			return in.evalPath(&ast.Node{K: ast.Path, C: []*ast.Node{n}}, ctx, env)
		}
		return in.evalPred(n, ctx, env)
	case ast.Block:
		fr := NewEnv(env)
		res := val.U
		for _, e := range n.C {
			v, err := in.Eval(e, ctx, fr)
			if err != nil {
				return val.U, err
			}
			res = v
		}
		return res, nil
	case ast.Arr:
		return in.evalArr(n, ctx, env)
	case ast.Range:
		return in.evalRange(n, ctx, env)
	case ast.Obj:
		return in.evalObj(n.C, ctx, env)
	case ast.Group:
		items, err := in.Eval(n.C[0], ctx, env)
		if err != nil {
			return val.U, err
		}
		return in.evalObj(n.C[1:], items, env)
	case ast.Sort:
		return in.evalSort(n, ctx, env)
	case ast.Cond:
		c, err := in.Eval(n.C[0], ctx, env)
		if err != nil {
			return val.U, err
		}
		if val.Truthy(c) {
			return in.Eval(n.C[1], ctx, env)
		}
		if len(n.C) > 2 {
			return in.Eval(n.C[2], ctx, env)
		}
		return val.U, nil
	case ast.Assign:
		v, err := in.Eval(n.C[0], ctx, env)
		if err != nil {
			return val.U, err
		}
		env.Bind(n.S, v)
		return v, nil
	case ast.Lambda:
		c := &Closure{Params: n.Params, Body: n.C[0], Env: env, Ctx: ctx}
		if n.Sig != "" {
			ps, ok := ParseSig(n.Sig)
			if !ok {
				return val.U, &Err{Kind: "bad-signature"}
			}
			c.Typed = true
			c.Sig = ps
		}
		return val.F(c), nil
	case ast.Call:
		return in.evalCall(n, ctx, env)
	case ast.Partial:
		f, err := in.Eval(n.C[0], ctx, env)
		if err != nil {
			return val.U, err
		}
		if f.K != val.Fn {
			return val.U, evalErr("ErrNonCallablePartial")
		}
		return val.F(&PartialFn{Fn: withCtx(f, ctx), Args: n.C[1:], Env: env, Ctx: ctx}), nil
	case ast.Chain:
		return in.evalChain(n, ctx, env)
	case ast.Transform:
		t := &TransformFn{Pattern: n.C[0], Update: n.C[1], Env: env}
		if len(n.C) > 2 {
			t.Delete = n.C[2]
		}
		return val.F(t), nil
	case ast.Neg:
		v, err := in.Eval(n.C[0], ctx, env)
		if err != nil || v.IsUndef() {
			return val.U, err
		}
		if v.K != val.Num {
			return val.U, evalErr("ErrNonNumberRHS")
		}
		return val.N(-v.N), nil
	case ast.Bin:
		return in.evalBin(n, ctx, env)
	}
	return val.U, &Err{Kind: "unsupported-node:" + n.K}
}

func (in *Interp) evalVar(n *ast.Node, ctx val.Value, env *Env) val.Value {
	switch n.S {
	case "":
		return ctx
	case "$":
		if v, ok := env.Lookup("$"); ok {
			return v
		}
		return in.Root
	}
	if v, ok := env.Lookup(n.S); ok {
		return v
	}
	if IsBuiltin(n.S) {
		return val.F(&Builtin{Name: n.S})
	}
	return val.U
}

// ---------------------------------------------------------------------------
// sequences

type seq struct {
	items []val.Value
}

// seqValue converts a sequence at a sub-expression boundary.
func seqValue(s seq, keep bool) val.Value {
	switch {
	case len(s.items) == 0:
		return val.U
	case len(s.items) == 1 && !keep:
		return s.items[0]
	}
	return val.A(append([]val.Value{}, s.items...)...)
}

// selectName is field selection on one context item: the member of an object;
// for an array, the selections from each member in order (selections from
// members that are themselves arrays are spliced in; array-valued members are
// not flattened); nothing for any other value.
func selectName(name string, v val.Value) seq {
	switch v.K {
	case val.Obj:
		if m, ok := v.O[name]; ok {
			return seq{[]val.Value{m}}
		}
	case val.Arr:
		var out seq
		for _, e := range v.A {
			out.items = append(out.items, selectName(name, e).items...)
		}
		return out
	}
	return seq{}
}

// nameStep is the value of a name step on one context item (sequence collapsed).
func nameStep(name string, v val.Value) val.Value {
	if v.K == val.Obj {
		if m, ok := v.O[name]; ok {
			return m
		}
		return val.U
	}
	return seqValue(selectName(name, v), false)
}

func flattenDeep(v val.Value, out *[]val.Value) {
	if v.K == val.Arr {
		for _, e := range v.A {
			flattenDeep(e, out)
		}
		return
	}
	if !v.IsUndef() {
		*out = append(*out, v)
	}
}

// wildcard: all member values of an object, or all members of an array, with
// array values flattened completely.
func wildcard(v val.Value) seq {
	var out seq
	switch v.K {
	case val.Obj:
		for _, k := range v.Keys() {
			flattenDeep(v.O[k], &out.items)
		}
	case val.Arr:
		for _, e := range v.A {
			flattenDeep(e, &out.items)
		}
	}
	return out
}

// descendants: the context (unless it is an array) followed by the descendants
// of each member value / array member, depth first; arrays are represented by
// their members.
func descendants(v val.Value) seq {
	var out seq
	var rec func(v val.Value)
	rec = func(v val.Value) {
		if v.IsUndef() {
			return
		}
		if v.K != val.Arr {
			out.items = append(out.items, v)
		}
		switch v.K {
		case val.Obj:
			for _, k := range v.Keys() {
				rec(v.O[k])
			}
		case val.Arr:
			for _, e := range v.A {
				rec(e)
			}
		}
	}
	rec(v)
	return out
}

func isVarStart(n *ast.Node) bool {
	if n.K == ast.Var {
		return true
	}
	if n.K == ast.Pred && n.C[0].K == ast.Var {
		// only a predicate directly on a variable (nested predicates are not)
		return true
	}
	return false
}

// evalStep evaluates one path step on one context item.
func (in *Interp) evalStep(step *ast.Node, item val.Value, env *Env) (val.Value, *Err) {
	switch step.K {
	case ast.Name:
		if e := in.tick(); e != nil {
			return val.U, e
		}
		v := nameStep(step.S, item)
		// a member whose value is JSON null: the library treats it as absent in
		// some positions and as null in others (README, "Null handling"); not modelled
		if v.K == val.Null {
			return val.U, &Err{Kind: "unsupported-null-member"}
		}
		if v.K == val.Arr && item.K == val.Arr {
			// selections from several items (an array that is a member's value is
			// a plain value and may contain nulls)
			for _, e := range v.A {
				if e.K == val.Null {
					return val.U, &Err{Kind: "unsupported-null-member"}
				}
			}
		}
		return v, nil
	case ast.Pred:
		if e := in.tick(); e != nil {
			return val.U, e
		}
		return in.evalPred(step, item, env)
	}
	return in.Eval(step, item, env)
}

func (in *Interp) evalPath(n *ast.Node, ctx val.Value, env *Env) (val.Value, *Err) {
	if len(n.C) == 0 {
		return val.U, nil
	}
	var cur []val.Value
	anchored := isVarStart(n.C[0])
	if anchored || ctx.K != val.Arr {
		cur = []val.Value{ctx}
		if anchored {
			in.Trace.Anchored = true
		}
	} else {
		cur = ctx.A
	}
	last := len(n.C) - 1
	isSeq := false
	var plain val.Value // result of the last-step shortcut / first-step constructor
	for i, step := range n.C {
		if step.K == ast.Arr && i == 0 {
			// a first-step array constructor is evaluated once against the wrapped context
			v, err := in.Eval(step, val.A(cur...), env)
			if err != nil {
				return val.U, err
			}
			if v.IsUndef() || len(v.A) == 0 {
				return val.U, nil
			}
			cur, isSeq, plain = v.A, false, v
			if i == last {
				return plain, nil
			}
			continue
		}
		if len(cur) >= 2 {
			in.Trace.MappedMany = true
		}
		var results []val.Value
		for _, item := range cur {
			r, err := in.evalStep(step, item, env)
			if err != nil {
				return val.U, err
			}
			if r.IsUndef() {
				in.Trace.Dropped = true
				continue
			}
			results = append(results, r)
		}
		if i == last && len(results) == 1 && results[0].K == val.Arr {
			in.Trace.Shortcut = true
			r := results[0]
			if len(r.A) == 0 {
				return val.U, nil
			}
			return val.A(r.A...), nil
		}
		isCons := step.K == ast.Arr
		var next []val.Value
		for _, r := range results {
			if isCons || r.K != val.Arr {
				if isCons {
					in.Trace.ConsUnit = true
				}
				next = append(next, r)
				continue
			}
			in.Trace.Flattened = true
			for _, e := range r.A {
				if !e.IsUndef() {
					next = append(next, e)
				}
			}
		}
		if len(next) == 0 {
			return val.U, nil
		}
		cur, isSeq = next, true
	}
	_ = plain
	if !isSeq {
		return val.A(cur...), nil
	}
	keep := n.Keep != 0
	if len(cur) == 1 {
		if keep {
			in.Trace.KeepMattered = true
		} else {
			in.Trace.Singleton = true
		}
	}
	return seqValue(seq{cur}, keep), nil
}

func arrayify(v val.Value) []val.Value {
	switch v.K {
	case val.Arr:
		return v.A
	case val.Undef:
		return nil
	}
	return []val.Value{v}
}

func isNumArray(v val.Value) bool {
	if v.K != val.Arr {
		return false
	}
	for _, e := range v.A {
		if e.K != val.Num {
			return false
		}
	}
	return true
}

func (in *Interp) applyFilter(f *ast.Node, items []val.Value, env *Env) ([]val.Value, *Err) {
	var out []val.Value
	n := len(items)
	if n >= 2 {
		in.Trace.FilterMany = true
	}
	boolKept := 0
	boolean := false
	for i, item := range items {
		r, err := in.Eval(f, item, env)
		if err != nil {
			return nil, err
		}
		if r.K == val.Num {
			r = val.A(r)
		}
		if isNumArray(r) {
			in.Trace.FilterIndex = true
			for _, x := range r.A {
				idx := int(math.Floor(x.N))
				if idx < 0 {
					idx += n
				}
				if idx == i {
					out = append(out, item)
				}
			}
			continue
		}
		boolean = true
		if val.Truthy(r) {
			boolKept++
			out = append(out, item)
		}
	}
	if boolean && boolKept > 0 && boolKept < n {
		in.Trace.FilterSubset = true
	}
	return out, nil
}

// evalPred: head[f1]…[fn]. For a name head the filters are stacked on the
// survivor list as it is; for any other head the port parses nested predicates,
// so after each filter a one-item list collapses to the item before the next
// filter is applied.
func (in *Interp) evalPred(n *ast.Node, ctx val.Value, env *Env) (val.Value, *Err) {
	head := n.C[0]
	var v val.Value
	var err *Err
	if head.K == ast.Name {
		v, err = in.evalStep(head, ctx, env)
	} else {
		v, err = in.Eval(head, ctx, env)
	}
	if err != nil || v.IsUndef() {
		return val.U, err
	}
	stacked := head.K == ast.Name
	items := arrayify(v)
	for i, f := range n.C[1:] {
		if i > 0 {
			in.Trace.FilterSecond = true
		}
		out, err := in.applyFilter(f, items, env)
		if err != nil {
			return val.U, err
		}
		if len(out) == 0 {
			return val.U, nil
		}
		if stacked {
			items = out
			continue
		}
		// nested: normalise, then re-arrayify for the next filter
		if len(out) == 1 {
			if i == len(n.C)-2 {
				return out[0], nil
			}
			if out[0].IsUndef() {
				return val.U, nil
			}
			items = arrayify(out[0])
		} else {
			items = out
		}
	}
	if len(items) == 1 {
		return items[0], nil
	}
	return val.A(items...), nil
}

func (in *Interp) evalArr(n *ast.Node, ctx val.Value, env *Env) (val.Value, *Err) {
	out := []val.Value{}
	for _, it := range n.C {
		v, err := in.Eval(it, ctx, env)
		if err != nil {
			return val.U, err
		}
		if v.IsUndef() {
			continue
		}
		if it.K == ast.Arr {
			out = append(out, v)
			continue
		}
		for _, e := range arrayify(v) {
			if !e.IsUndef() {
				out = append(out, e)
			}
		}
	}
	r := val.A(out...)
	r.Cons = true
	return r, nil
}

// MaxRangeItems is the stated limit of the range operator.
const MaxRangeItems = 10000000

// rangeBounds evaluates and checks the bounds of a range; size < 0 = empty range.
func (in *Interp) rangeBounds(n *ast.Node, ctx val.Value, env *Env) (lo float64, size float64, err *Err) {
	l, err := in.Eval(n.C[0], ctx, env)
	if err != nil {
		return 0, 0, err
	}
	r, err := in.Eval(n.C[1], ctx, env)
	if err != nil {
		return 0, 0, err
	}
	isInt := func(v val.Value) bool { return v.K == val.Num && v.N == math.Trunc(v.N) }
	if !l.IsUndef() && !isInt(l) {
		return 0, 0, evalErr("ErrNonIntegerLHS")
	}
	if !r.IsUndef() && !isInt(r) {
		return 0, 0, evalErr("ErrNonIntegerRHS")
	}
	if l.IsUndef() || r.IsUndef() || l.N > r.N {
		return 0, -1, nil
	}
	size = r.N - l.N + 1
	if size > MaxRangeItems {
		return 0, 0, evalErr("ErrMaxRangeItems")
	}
	return l.N, size, nil
}

func (in *Interp) evalRange(n *ast.Node, ctx val.Value, env *Env) (val.Value, *Err) {
	lo, size, err := in.rangeBounds(n, ctx, env)
	if err != nil {
		return val.U, err
	}
	if size < 0 {
		return val.U, nil
	}
	l := val.N(lo)
	if in.Fuel -= int(size); in.Fuel < 0 {
		return val.U, errFuel
	}
	out := make([]val.Value, 0, int(size))
	x := l.N
	for i := 0; i < int(size); i++ {
		out = append(out, val.N(x))
		x++
	}
	return val.A(out...), nil
}

// evalObj is the object constructor / grouping over items (the context for a
// plain constructor). kv = k1, v1, k2, v2 …
func (in *Interp) evalObj(kv []*ast.Node, data val.Value, env *Env) (val.Value, *Err) {
	var items []val.Value
	if data.K == val.Arr {
		items = data.A
	} else {
		items = []val.Value{data}
	}
	type grp struct {
		pair int
		idx  []int
		lit  bool
	}
	groups := map[string]*grp{}
	var order []string
	for p := 0; p+1 < len(kv); p += 2 {
		k := kv[p]
		if k.K == ast.Str {
			if _, dup := groups[k.S]; dup {
				return val.U, evalErr("ErrDuplicateKey")
			}
			groups[k.S] = &grp{pair: p, lit: true}
			order = append(order, k.S)
			continue
		}
		for j, it := range items {
			kvv, err := in.Eval(k, it, env)
			if err != nil {
				return val.U, err
			}
			if kvv.K != val.Str {
				return val.U, evalErr("ErrIllegalKey")
			}
			g, ok := groups[kvv.S]
			if !ok {
				groups[kvv.S] = &grp{pair: p, idx: []int{j}}
				order = append(order, kvv.S)
				continue
			}
			if g.pair != p {
				return val.U, evalErr("ErrDuplicateKey")
			}
			g.idx = append(g.idx, j)
		}
	}
	if len(order) > in.Trace.GroupKeys {
		in.Trace.GroupKeys = len(order)
	}
	// value evaluation: which member fails first when several fail is
	// unspecified (the port iterates a Go map); errors are collected and the
	// caller is told through ErrAmbiguous when more than one distinct kind arises.
	out := map[string]val.Value{}
	var errs []*Err
	for _, key := range order {
		g := groups[key]
		// the value is evaluated over the items that produced the key: the
		// whole context as it is for a literal key, the item itself for one
		// item, the array of items otherwise
		var vctx val.Value
		switch n := len(g.idx); {
		case n == 0:
			vctx = data
		case n == 1:
			vctx = items[g.idx[0]]
		case n == len(items):
			vctx = val.A(items...)
		default:
			sub := make([]val.Value, n)
			for i, j := range g.idx {
				sub[i] = items[j]
			}
			vctx = val.A(sub...)
		}
		if len(g.idx) >= 2 {
			in.Trace.Grouped = true
		}
		v, err := in.Eval(kv[g.pair+1], vctx, env)
		if err != nil {
			errs = append(errs, err)
			continue
		}
		if !v.IsUndef() {
			out[key] = v
		}
	}
	if len(errs) > 0 {
		e := *errs[0]
		for _, x := range errs[1:] {
			if x.Kind != e.Kind {
				e.Msg = "ambiguous"
			}
		}
		return val.U, &e
	}
	return val.O(out), nil
}

// cmpLess orders two numbers or two strings (code point order = byte order of UTF-8).
func cmpLess(a, b val.Value) bool {
	if a.K == val.Num {
		return a.N < b.N
	}
	return a.S < b.S
}

func (in *Interp) evalSort(n *ast.Node, ctx val.Value, env *Env) (val.Value, *Err) {
	v, err := in.Eval(n.C[0], ctx, env)
	if err != nil || v.IsUndef() {
		return val.U, err
	}
	items := arrayify(v)
	terms := n.C[1:]
	type info struct {
		i    int
		keys []val.Value
	}
	infos := make([]info, len(items))
	isNum := make([]bool, len(terms))
	isStr := make([]bool, len(terms))
	for i, it := range items {
		keys := make([]val.Value, len(terms))
		for j, t := range terms {
			k, err := in.Eval(t, it, env)
			if err != nil {
				return val.U, err
			}
			switch k.K {
			case val.Undef:
				in.Trace.SortMissing = true
			case val.Num:
				if isStr[j] {
					return val.U, evalErr("ErrSortMismatch")
				}
				isNum[j] = true
			case val.Str:
				if isNum[j] {
					return val.U, evalErr("ErrSortMismatch")
				}
				isStr[j] = true
			default:
				return val.U, evalErr("ErrNonSortable")
			}
			keys[j] = k
		}
		infos[i] = info{i, keys}
	}
	less := func(a, b info) bool {
		for t := range terms {
			x, y := a.keys[t], b.keys[t]
			switch {
			case x.IsUndef() && y.IsUndef():
				continue
			case x.IsUndef():
				return false
			case y.IsUndef():
				return true
			}
			if val.Equal(x, y) {
				continue
			}
			if t < len(n.Dirs) && n.Dirs[t] == ">" {
				return cmpLess(y, x)
			}
			return cmpLess(x, y)
		}
		return false
	}
	// plain stable insertion sort (obviously stable)
	sorted := make([]info, 0, len(infos))
	for _, x := range infos {
		pos := len(sorted)
		for pos > 0 && less(x, sorted[pos-1]) {
			pos--
		}
		sorted = append(sorted, info{})
		copy(sorted[pos+1:], sorted[pos:])
		sorted[pos] = x
	}
	for i := 1; i < len(sorted); i++ {
		if !less(sorted[i-1], sorted[i]) && !less(sorted[i], sorted[i-1]) {
			in.Trace.SortTies = true
		}
	}
	out := make([]val.Value, len(sorted))
	for i, s := range sorted {
		out[i] = items[s.i]
	}
	if len(out) == 1 {
		return out[0], nil
	}
	return val.A(out...), nil
}

// withCtx binds the call-site context to a built-in function value.
func withCtx(f val.Value, ctx val.Value) val.Value {
	if b, ok := f.F.(*Builtin); ok {
		return val.F(&Builtin{Name: b.Name, Ctx: ctx, Has: true})
	}
	return f
}

func (in *Interp) evalCall(n *ast.Node, ctx val.Value, env *Env) (val.Value, *Err) {
	f, err := in.Eval(n.C[0], ctx, env)
	if err != nil {
		return val.U, err
	}
	if f.K != val.Fn {
		return val.U, evalErr("ErrNonCallable")
	}
	f = withCtx(f, ctx)
	if b, ok := f.F.(*Builtin); ok && b.Name == "count" && len(n.C) == 2 && n.C[1].K == ast.Arr && len(n.C[1].C) == 1 && n.C[1].C[0].K == ast.Range {
		// $count([a..b]) is answered from the bounds, so that the oracle never
		// materialises a ten-million-item range
		_, size, err := in.rangeBounds(n.C[1].C[0], ctx, env)
		if err != nil {
			return val.U, err
		}
		if size < 0 {
			size = 0
		}
		return val.N(size), nil
	}
	args := make([]val.Value, len(n.C)-1)
	for i, a := range n.C[1:] {
		v, err := in.Eval(a, ctx, env)
		if err != nil {
			return val.U, err
		}
		args[i] = v
	}
	return in.Apply(f, args)
}

func (in *Interp) evalChain(n *ast.Node, ctx val.Value, env *Env) (val.Value, *Err) {
	rhs := n.C[1]
	if rhs.K == ast.Call {
		call := &ast.Node{K: ast.Call, C: append([]*ast.Node{rhs.C[0], n.C[0]}, rhs.C[1:]...)}
		return in.evalCall(call, ctx, env)
	}
	l, err := in.Eval(n.C[0], ctx, env)
	if err != nil {
		return val.U, err
	}
	r, err := in.Eval(rhs, ctx, env)
	if err != nil {
		return val.U, err
	}
	if r.K != val.Fn {
		return val.U, evalErr("ErrNonCallableApply")
	}
	r = withCtx(r, ctx)
	if l.K != val.Fn {
		return in.Apply(r, []val.Value{l})
	}
	return val.F(&ChainFn{F1: l, F2: r}), nil
}

// Apply calls a function value.
func (in *Interp) Apply(f val.Value, args []val.Value) (val.Value, *Err) {
	if e := in.tick(); e != nil {
		return val.U, e
	}
	in.Trace.Calls++
	switch fn := f.F.(type) {
	case *Closure:
		return in.applyClosure(fn, args)
	case *Builtin:
		return in.callBuiltin(fn, args)
	case *PartialFn:
		full := make([]val.Value, len(fn.Args))
		rest := args
		for i, a := range fn.Args {
			if a.K == ast.Hole {
				if len(rest) > 0 {
					full[i] = rest[0]
					rest = rest[1:]
				}
				continue
			}
			v, err := in.Eval(a, fn.Ctx, fn.Env)
			if err != nil {
				return val.U, err
			}
			full[i] = v
		}
		return in.Apply(fn.Fn, full)
	case *ChainFn:
		var v val.Value
		if len(args) > 0 {
			v = args[0]
		}
		v, err := in.Apply(fn.F1, []val.Value{v})
		if err != nil {
			return val.U, err
		}
		return in.Apply(fn.F2, []val.Value{v})
	case *TransformFn:
		return in.applyTransform(fn, args)
	}
	return val.U, &Err{Kind: "unsupported-function"}
}

// ParamCount is the arity the higher-order built-ins see.
func ParamCount(f val.Value) int {
	switch fn := f.F.(type) {
	case *Closure:
		return len(fn.Params)
	case *Builtin:
		return builtinParamCount(fn.Name)
	case *PartialFn:
		c := 0
		for _, a := range fn.Args {
			if a.K == ast.Hole {
				c++
			}
		}
		return c
	case *ChainFn, *TransformFn:
		return 1
	}
	return 0
}

func (in *Interp) applyClosure(c *Closure, args []val.Value) (val.Value, *Err) {
	if c.Typed {
		var err *Err
		args, err = checkSignature(c, args)
		if err != nil {
			return val.U, err
		}
	}
	fr := NewEnv(c.Env)
	for i, p := range c.Params {
		v := val.U
		if i < len(args) {
			v = args[i]
		}
		fr.Bind(p, v)
	}
	return in.Eval(c.Body, c.Ctx, fr)
}

func (in *Interp) applyTransform(t *TransformFn, args []val.Value) (val.Value, *Err) {
	if len(args) != 1 {
		return val.U, &Err{Kind: "ArgCount"}
	}
	a := args[0]
	if a.IsUndef() {
		return val.U, nil
	}
	if a.K == val.Fn {
		// an error either way; the library reports that it cannot copy the value
		return val.U, &Err{Kind: "ArgType", Msg: "ambiguous"}
	}
	if a.K != val.Obj && a.K != val.Arr {
		return val.U, &Err{Kind: "ArgType"}
	}
	cp, ids := cloneTracked(a)
	sel, err := in.Eval(t.Pattern, cp, t.Env)
	if err != nil {
		return val.U, err
	}
	for _, item := range arrayify(sel) {
		if item.K != val.Obj || !ids[objID(item)] {
			continue
		}
		up, err := in.Eval(t.Update, item, t.Env)
		if err != nil {
			return val.U, err
		}
		if !up.IsUndef() {
			if up.K != val.Obj {
				return val.U, evalErr("ErrIllegalUpdate")
			}
			// the library inserts a copy of the update values as they were
			// when the clause was evaluated (functions become "")
			snap, _ := cloneTracked(up)
			for k, v := range snap.O {
				item.O[k] = v
			}
		}
		if t.Delete != nil {
			del, err := in.Eval(t.Delete, item, t.Env)
			if err != nil {
				return val.U, err
			}
			if !del.IsUndef() {
				ds := arrayify(del)
				for _, d := range ds {
					if d.K != val.Str {
						return val.U, evalErr("ErrIllegalDelete")
					}
				}
				for _, d := range ds {
					delete(item.O, d.S)
				}
			}
		}
	}
	return cp, nil
}

// cloneTracked deep-copies a value (functions become empty strings, as the
// library's JSON-based clone does) and returns the identity set of the maps in
// the copy.
func cloneTracked(v val.Value) (val.Value, map[uintptr]bool) {
	ids := map[uintptr]bool{}
	var rec func(v val.Value) val.Value
	rec = func(v val.Value) val.Value {
		switch v.K {
		case val.Arr:
			out := make([]val.Value, len(v.A))
			for i, e := range v.A {
				out[i] = rec(e)
			}
			return val.A(out...)
		case val.Obj:
			out := make(map[string]val.Value, len(v.O))
			for k, e := range v.O {
				out[k] = rec(e)
			}
			o := val.O(out)
			ids[objID(o)] = true
			return o
		case val.Fn:
			return val.S("")
		}
		return v
	}
	r := rec(v)
	return r, ids
}

func (in *Interp) evalBin(n *ast.Node, ctx val.Value, env *Env) (val.Value, *Err) {
	l, err := in.Eval(n.C[0], ctx, env)
	if err != nil {
		return val.U, err
	}
	r, err := in.Eval(n.C[1], ctx, env)
	if err != nil {
		return val.U, err
	}
	return BinOp(n.S, l, r)
}

// BinOp is the operator table of the statement.
func BinOp(op string, l, r val.Value) (val.Value, *Err) {
	switch op {
	case "+", "-", "*", "/", "%":
		if !l.IsUndef() && l.K != val.Num {
			return val.U, evalErr("ErrNonNumberLHS")
		}
		if !r.IsUndef() && r.K != val.Num {
			return val.U, evalErr("ErrNonNumberRHS")
		}
		if l.IsUndef() || r.IsUndef() {
			return val.U, nil
		}
		var x float64
		switch op {
		case "+":
			x = l.N + r.N
		case "-":
			x = l.N - r.N
		case "*":
			x = l.N * r.N
		case "/":
			x = l.N / r.N
		case "%":
			x = math.Mod(l.N, r.N)
		}
		if math.IsInf(x, 0) {
			return val.U, evalErr("ErrNumberInf")
		}
		if math.IsNaN(x) {
			return val.U, evalErr("ErrNumberNaN")
		}
		return val.N(x), nil
	case "<", "<=", ">", ">=":
		cmp := func(v val.Value) bool { return v.K == val.Num || v.K == val.Str }
		if !l.IsUndef() && !cmp(l) {
			return val.U, evalErr("ErrNonComparableLHS")
		}
		if !r.IsUndef() && !cmp(r) {
			return val.U, evalErr("ErrNonComparableRHS")
		}
		if !l.IsUndef() && !r.IsUndef() && l.K != r.K {
			return val.U, evalErr("ErrTypeMismatch")
		}
		if l.IsUndef() || r.IsUndef() {
			return val.False, nil
		}
		lt, eq := cmpLess(l, r), val.Equal(l, r)
		switch op {
		case "<":
			return val.B(lt), nil
		case "<=":
			return val.B(lt || eq), nil
		case ">":
			return val.B(!(lt || eq)), nil
		}
		return val.B(!lt), nil
	case "=", "!=", "in":
		if l.IsUndef() || r.IsUndef() {
			return val.False, nil
		}
		if containsFn(l) || containsFn(r) {
			// the statement defines no equality on function values
			return val.U, &Err{Kind: "unsupported-function-equality"}
		}
		switch op {
		case "=":
			return val.B(Eq(l, r)), nil
		case "!=":
			return val.B(!Eq(l, r)), nil
		}
		for _, e := range arrayify(r) {
			if Eq(l, e) {
				return val.True, nil
			}
		}
		return val.False, nil
	case "and":
		return val.B(val.Truthy(l) && val.Truthy(r)), nil
	case "or":
		return val.B(val.Truthy(l) || val.Truthy(r)), nil
	case "&":
		ls, err := Stringify(l)
		if err != nil {
			return val.U, err
		}
		rs, err := Stringify(r)
		if err != nil {
			return val.U, err
		}
		return val.S(ls + rs), nil
	}
	return val.U, &Err{Kind: "unsupported-operator:" + op}
}

func containsFn(v val.Value) bool {
	switch v.K {
	case val.Fn:
		return true
	case val.Arr:
		for _, e := range v.A {
			if containsFn(e) {
				return true
			}
		}
	case val.Obj:
		for _, e := range v.O {
			if containsFn(e) {
				return true
			}
		}
	}
	return false
}

// Eq is JSONata equality on values: by value for numbers, strings, booleans,
// null; structural for arrays and objects; identity is not modelled for
// functions (generators do not compare functions).
func Eq(a, b val.Value) bool {
	if a.K == val.Fn || b.K == val.Fn {
		if a.K == b.K {
			return a.F == b.F
		}
		return false
	}
	if a.K != b.K {
		return false
	}
	switch a.K {
	case val.Arr:
		if len(a.A) != len(b.A) {
			return false
		}
		for i := range a.A {
			if !Eq(a.A[i], b.A[i]) {
				return false
			}
		}
		return true
	case val.Obj:
		if len(a.O) != len(b.O) {
			return false
		}
		for k, x := range a.O {
			y, ok := b.O[k]
			if !ok || !Eq(x, y) {
				return false
			}
		}
		return true
	}
	return val.Equal(a, b)
}

var _ = sort.Strings
