package ref

import (
	"encoding/json"
	"math"
	"reflect"
	"sort"
	"strconv"
	"strings"
	"unicode"
	"unicode/utf8"

	"verif/harness/internal/val"
)

func objID(v val.Value) uintptr { return reflect.ValueOf(v.O).Pointer() }

// ---------------------------------------------------------------------------
// stringification (the & operator and $string)

// Stringify is the string form of a value: strings unchanged, functions the
// empty string, missing the empty string, anything else its JSON text.
func Stringify(v val.Value) (string, *Err) {
	switch v.K {
	case val.Undef:
		return "", nil
	case val.Str:
		return v.S, nil
	case val.Fn:
		return "", nil
	}
	var sb strings.Builder
	if err := jsonText(&sb, v); err != nil {
		return "", err
	}
	return sb.String(), nil
}

func jsonText(sb *strings.Builder, v val.Value) *Err {
	switch v.K {
	case val.Null, val.Undef:
		sb.WriteString("null")
	case val.Bool:
		sb.WriteString(strconv.FormatBool(v.B))
	case val.Num:
		if math.IsNaN(v.N) || math.IsInf(v.N, 0) {
			return &Err{Kind: "Other"}
		}
		b, _ := json.Marshal(v.N)
		sb.Write(b)
	case val.Str:
		b, _ := json.Marshal(v.S)
		sb.Write(b)
	case val.Fn:
		sb.WriteString(`""`)
	case val.Arr:
		sb.WriteByte('[')
		for i, e := range v.A {
			if i > 0 {
				sb.WriteByte(',')
			}
			if err := jsonText(sb, e); err != nil {
				return err
			}
		}
		sb.WriteByte(']')
	case val.Obj:
		sb.WriteByte('{')
		for i, k := range v.Keys() {
			if i > 0 {
				sb.WriteByte(',')
			}
			b, _ := json.Marshal(k)
			sb.Write(b)
			sb.WriteByte(':')
			if err := jsonText(sb, v.O[k]); err != nil {
				return err
			}
		}
		sb.WriteByte('}')
	}
	return nil
}

// ---------------------------------------------------------------------------
// lambda signatures

// Param is one parameter of a declared signature.
type Param struct {
	Types string // set of type letters (n s b l a o f j x)
	Opt   byte   // 0, '?', '+', '-'
	Sub   []Param
}

// ParseSig parses the text between < and > (up to an optional ':').
func ParseSig(s string) ([]Param, bool) {
	if i := strings.IndexByte(s, ':'); i >= 0 {
		s = s[:i]
	}
	ps, rest, ok := parseParams(s)
	return ps, ok && rest == ""
}

func parseParams(s string) ([]Param, string, bool) {
	var ps []Param
	for len(s) > 0 {
		c := s[0]
		switch {
		case strings.IndexByte("nsblaofjx", c) >= 0:
			ps = append(ps, Param{Types: string(c)})
			s = s[1:]
		case c == '(':
			j := strings.IndexByte(s, ')')
			if j < 0 {
				return nil, s, false
			}
			ps = append(ps, Param{Types: s[1:j]})
			s = s[j+1:]
		case c == '?' || c == '+' || c == '-':
			if len(ps) == 0 {
				return nil, s, false
			}
			ps[len(ps)-1].Opt = c
			s = s[1:]
		case c == '<':
			if len(ps) == 0 {
				return nil, s, false
			}
			depth, j := 0, 0
			for j = 0; j < len(s); j++ {
				if s[j] == '<' {
					depth++
				}
				if s[j] == '>' {
					depth--
					if depth == 0 {
						break
					}
				}
			}
			if j >= len(s) {
				return nil, s, false
			}
			sub, rest, ok := parseParams(s[1:j])
			if !ok || rest != "" {
				return nil, s, false
			}
			ps[len(ps)-1].Sub = sub
			s = s[j+1:]
		default:
			return nil, s, false
		}
	}
	return ps, "", true
}

func has(types string, c byte) bool { return strings.IndexByte(types, c) >= 0 }

// fits: does a present value fit a declared parameter type?
func fits(v val.Value, p Param) bool {
	if has(p.Types, 'x') {
		return true
	}
	j := has(p.Types, 'j')
	switch v.K {
	case val.Null:
		return j || has(p.Types, 'l')
	case val.Str:
		return j || has(p.Types, 's')
	case val.Num:
		return j || has(p.Types, 'n')
	case val.Bool:
		return j || has(p.Types, 'b')
	case val.Fn:
		return has(p.Types, 'f')
	case val.Arr:
		if j {
			return true
		}
		if has(p.Types, 'a') {
			if len(p.Sub) == 0 {
				return true
			}
			for _, e := range v.A {
				if !fits(e, p.Sub[0]) {
					return false
				}
			}
			return true
		}
		return false
	case val.Obj:
		return j || has(p.Types, 'o')
	}
	return false
}

// checkSignature binds the supplied arguments to a declared signature: context
// substitution for '-', missing optionals, count check, type check (a lone
// array type coerces a non-array argument into a one-member array), variadic
// collection (absent arguments are not collected).
func checkSignature(c *Closure, args []val.Value) ([]val.Value, *Err) {
	ps := c.Sig
	argv := append([]val.Value{}, args...)
	if len(argv) < len(ps) && len(ps) > 0 && ps[0].Opt == '-' {
		argv = append([]val.Value{c.Ctx}, argv...)
	}
	for i := len(argv); i < len(ps); i++ {
		if ps[i].Opt != '?' {
			break
		}
		argv = append(argv, val.U)
	}
	variadic := len(ps) > 0 && ps[len(ps)-1].Opt == '+'
	if len(argv) < len(ps) || (len(argv) > len(ps) && !variadic) {
		return nil, &Err{Kind: "ArgCount"}
	}
	for i, a := range argv {
		if a.IsUndef() {
			continue
		}
		var p Param
		if i < len(ps) {
			p = ps[i]
		} else if len(ps) > 0 {
			p = ps[len(ps)-1]
		}
		if p.Types == "a" && a.K != val.Arr {
			a = val.A(a)
			argv[i] = a
		}
		if !fits(a, p) {
			return nil, &Err{Kind: "ArgType"}
		}
	}
	if variadic {
		n := len(ps)
		var rest []val.Value
		for _, a := range argv[n-1:] {
			if !a.IsUndef() {
				rest = append(rest, a)
			}
		}
		argv = append(argv[:n-1:n-1], val.A(rest...))
	}
	return argv, nil
}

// ---------------------------------------------------------------------------
// built-in functions

// param kinds of the Go functions behind the built-ins
const (
	pS   = "s"   // string
	pN   = "n"   // float64
	pI   = "i"   // int (number truncated toward zero)
	pV   = "v"   // any value, missing allowed (reflect.Value / interface{})
	pF   = "f"   // function
	pOS  = "os"  // optional string
	pOI  = "oi"  // optional int
	pON  = "on"  // optional number
	pOV  = "ov"  // optional value
	pOF  = "of"  // optional function
	pSNB = "snb" // string, number or boolean
	pSF  = "sf"  // string or function
)

type ctxRule int

const (
	ctxNone ctxRule = iota
	ctxArgc0
	ctxArgc1
	ctxSubstring
	ctxBeforeAfter
	ctxPad
	ctxSplit
	ctxReplace
)

type spec struct {
	params   []string
	variadic bool // last param repeats
	ctx      ctxRule
	undef0   bool // "no value" when the first argument is missing
	fn       func(in *Interp, a []val.Value) (val.Value, *Err)
	custom   bool // custom undefined handling ($append)
}

var builtins map[string]*spec

// IsBuiltin reports whether the reference models a built-in of that name.
func IsBuiltin(name string) bool { _, ok := builtins[name]; return ok }

// BuiltinNames lists the modelled built-ins.
func BuiltinNames() []string {
	var ns []string
	for n := range builtins {
		ns = append(ns, n)
	}
	sort.Strings(ns)
	return ns
}

func builtinParamCount(name string) int {
	if s, ok := builtins[name]; ok {
		return len(s.params)
	}
	return 0
}

func other(msg string) *Err { return &Err{Kind: "Other", Msg: msg} }

func (in *Interp) callBuiltin(b *Builtin, args []val.Value) (val.Value, *Err) {
	sp := builtins[b.Name]
	if sp == nil {
		return val.U, &Err{Kind: "unsupported-builtin:" + b.Name}
	}
	argv := append([]val.Value{}, args...)
	if ctxApplies(sp.ctx, argv) {
		argv = append([]val.Value{b.Ctx}, argv...)
	}
	if sp.undef0 && len(argv) > 0 && argv[0].IsUndef() {
		return val.U, nil
	}
	if sp.custom && len(argv) == 2 && argv[0].IsUndef() && argv[1].IsUndef() {
		return val.U, nil
	}
	n := len(sp.params)
	for i := len(argv); i < n; i++ {
		if sp.params[i][0] != 'o' {
			break
		}
		argv = append(argv, val.U)
	}
	if sp.variadic {
		if len(argv) < n-1 {
			return val.U, &Err{Kind: "ArgCount"}
		}
	} else if len(argv) != n {
		return val.U, &Err{Kind: "ArgCount"}
	}
	for i, a := range argv {
		j := i
		if j >= n {
			j = n - 1
		}
		conv, ok := convertArg(a, sp.params[j])
		if !ok {
			return val.U, &Err{Kind: "ArgType"}
		}
		argv[i] = conv
	}
	return sp.fn(in, argv)
}

func ctxApplies(r ctxRule, a []val.Value) bool {
	isS := func(v val.Value) bool { return v.K == val.Str }
	isN := func(v val.Value) bool { return v.K == val.Num }
	isSF := func(v val.Value) bool { return v.K == val.Str || v.K == val.Fn }
	switch r {
	case ctxArgc0:
		return len(a) == 0
	case ctxArgc1:
		return len(a) == 1
	case ctxSubstring:
		return (len(a) == 1 && isN(a[0])) || (len(a) == 2 && isN(a[0]) && isN(a[1]))
	case ctxBeforeAfter:
		return len(a) == 1 && isS(a[0])
	case ctxPad:
		return (len(a) == 1 && isN(a[0])) || (len(a) == 2 && isN(a[0]) && isS(a[1]))
	case ctxSplit:
		return (len(a) == 1 && isSF(a[0])) || (len(a) == 2 && isSF(a[0]) && isN(a[1]))
	case ctxReplace:
		return (len(a) == 2 && isSF(a[0]) && isSF(a[1])) || (len(a) == 3 && isSF(a[0]) && isSF(a[1]) && isN(a[2]))
	}
	return false
}

// convertArg converts one argument to the parameter kind. Missing values are
// only acceptable for optional and any-value parameters.
func convertArg(a val.Value, kind string) (val.Value, bool) {
	if a.IsUndef() {
		return a, kind[0] == 'o' || kind == pV
	}
	if kind[0] == 'o' && kind != pOV {
		kind = kind[1:]
	}
	switch kind {
	case pV, pOV:
		return a, true
	case pS:
		return a, a.K == val.Str
	case pN:
		return a, a.K == val.Num
	case pI:
		if a.K != val.Num {
			return a, false
		}
		return val.N(math.Trunc(a.N)), true
	case pF:
		return a, a.K == val.Fn
	case pSNB:
		return a, a.K == val.Str || a.K == val.Num || a.K == val.Bool
	case pSF:
		return a, a.K == val.Str || a.K == val.Fn
	}
	return a, false
}

func runes(s string) []rune { return []rune(s) }

func forceArray(v val.Value) []val.Value {
	if v.K == val.Arr {
		return v.A
	}
	if v.IsUndef() {
		return nil
	}
	return []val.Value{v}
}

func clamp(n, lo, hi int) int {
	if n < lo {
		return lo
	}
	if n > hi {
		return hi
	}
	return n
}

func aggregate(name string, v val.Value) ([]float64, float64, bool, *Err) {
	if v.K != val.Arr {
		if v.K == val.Num {
			return nil, v.N, true, nil
		}
		return nil, 0, false, other("cannot call " + name + " on a non-array type")
	}
	xs := make([]float64, len(v.A))
	for i, e := range v.A {
		if e.K != val.Num {
			return nil, 0, false, other("non-number member")
		}
		xs[i] = e.N
	}
	return xs, 0, false, nil
}

// RoundHalfEven rounds the shortest decimal representation of x half-to-even
// at the p-th fraction digit, using exact decimal string arithmetic.
func RoundHalfEven(x float64, p int) float64 {
	if x == 0 || math.IsInf(x, 0) || math.IsNaN(x) {
		if x == 0 {
			return 0
		}
		return x
	}
	neg := x < 0
	if neg {
		x = -x
	}
	// shortest decimal digits and exponent: x = 0.d1d2… × 10^exp
	s := strconv.FormatFloat(x, 'e', -1, 64)
	mant, expS, _ := strings.Cut(s, "e")
	e10, _ := strconv.Atoi(expS)
	digits := strings.Replace(mant, ".", "", 1)
	// value = digits × 10^(e10 - (len(digits)-1))
	pointPos := e10 + 1 // number of digits before the decimal point (may be <= 0)
	// keep digits up to position pointPos+p
	cut := pointPos + p
	var kept string
	var roundUp bool
	switch {
	case cut < 0:
		kept, roundUp = "", false
	case cut >= len(digits):
		kept = digits + strings.Repeat("0", cut-len(digits))
	default:
		kept = digits[:cut]
		rest := digits[cut:]
		first := rest[0]
		tail := strings.TrimRight(rest[1:], "0")
		switch {
		case first > '5' || (first == '5' && tail != ""):
			roundUp = true
		case first == '5':
			// tie: round to even
			last := byte('0')
			if len(kept) > 0 {
				last = kept[len(kept)-1]
			}
			roundUp = (last-'0')%2 == 1
		}
	}
	if cut == 0 && len(digits) > 0 {
		// kept is empty; decision above used digits[0]
	}
	if kept == "" {
		kept = "0"
	}
	if roundUp {
		b := []byte(kept)
		i := len(b) - 1
		for ; i >= 0; i-- {
			if b[i] == '9' {
				b[i] = '0'
				continue
			}
			b[i]++
			break
		}
		if i < 0 {
			b = append([]byte{'1'}, b...)
		}
		kept = string(b)
	}
	// kept × 10^(-p)
	r, _ := strconv.ParseFloat(kept+"e"+strconv.Itoa(-p), 64)
	if r == 0 {
		return 0
	}
	if neg {
		r = -r
	}
	return r
}

func init() {
	builtins = map[string]*spec{
		"string": {params: []string{pV}, ctx: ctxArgc0, undef0: true, fn: func(in *Interp, a []val.Value) (val.Value, *Err) {
			s, err := Stringify(a[0])
			if err != nil {
				return val.U, err
			}
			return val.S(s), nil
		}},
		"length": {params: []string{pS}, ctx: ctxArgc0, undef0: true, fn: func(in *Interp, a []val.Value) (val.Value, *Err) {
			return val.N(float64(utf8.RuneCountInString(a[0].S))), nil
		}},
		"substring": {params: []string{pS, pI, pOI}, ctx: ctxSubstring, undef0: true, fn: func(in *Interp, a []val.Value) (val.Value, *Err) {
			rs := runes(a[0].S)
			n := len(rs)
			start := int(a[1].N)
			hasLen := !a[2].IsUndef()
			length := int(a[2].N)
			if (hasLen && length <= 0) || start >= n {
				return val.S(""), nil
			}
			if start < 0 {
				start += n
				if start < 0 {
					start = 0
				}
			}
			end := n
			if hasLen && start+length < n {
				end = start + length
			}
			return val.S(string(rs[start:end])), nil
		}},
		"substringBefore": {params: []string{pS, pS}, ctx: ctxBeforeAfter, undef0: true, fn: func(in *Interp, a []val.Value) (val.Value, *Err) {
			if i := strings.Index(a[0].S, a[1].S); i >= 0 {
				return val.S(a[0].S[:i]), nil
			}
			return a[0], nil
		}},
		"substringAfter": {params: []string{pS, pS}, ctx: ctxBeforeAfter, undef0: true, fn: func(in *Interp, a []val.Value) (val.Value, *Err) {
			if i := strings.Index(a[0].S, a[1].S); i >= 0 {
				return val.S(a[0].S[i+len(a[1].S):]), nil
			}
			return a[0], nil
		}},
		"uppercase": {params: []string{pS}, ctx: ctxArgc0, undef0: true, fn: func(in *Interp, a []val.Value) (val.Value, *Err) {
			return val.S(strings.ToUpper(a[0].S)), nil
		}},
		"lowercase": {params: []string{pS}, ctx: ctxArgc0, undef0: true, fn: func(in *Interp, a []val.Value) (val.Value, *Err) {
			return val.S(strings.ToLower(a[0].S)), nil
		}},
		"trim": {params: []string{pS}, ctx: ctxArgc0, undef0: true, fn: func(in *Interp, a []val.Value) (val.Value, *Err) {
			return val.S(TrimRef(a[0].S)), nil
		}},
		"pad": {params: []string{pS, pI, pOS}, ctx: ctxPad, undef0: true, fn: func(in *Interp, a []val.Value) (val.Value, *Err) {
			return val.S(PadRef(a[0].S, int(a[1].N), a[2].S)), nil
		}},
		"contains": {params: []string{pS, pSF}, ctx: ctxArgc1, undef0: true, fn: func(in *Interp, a []val.Value) (val.Value, *Err) {
			if a[1].K != val.Str {
				return val.U, &Err{Kind: "unsupported-regex"}
			}
			return val.B(strings.Contains(a[0].S, a[1].S)), nil
		}},
		"split": {params: []string{pS, pSF, pOI}, ctx: ctxSplit, undef0: true, fn: func(in *Interp, a []val.Value) (val.Value, *Err) {
			if a[1].K != val.Str {
				return val.U, &Err{Kind: "unsupported-regex"}
			}
			limit := int(a[2].N)
			if limit < 0 {
				return val.U, other("negative limit")
			}
			parts := SplitRef(a[0].S, a[1].S)
			if !a[2].IsUndef() && limit < len(parts) {
				parts = parts[:limit]
			}
			out := make([]val.Value, len(parts))
			for i, p := range parts {
				out[i] = val.S(p)
			}
			return val.A(out...), nil
		}},
		"join": {params: []string{pV, pOS}, undef0: true, fn: func(in *Interp, a []val.Value) (val.Value, *Err) {
			if a[0].K == val.Str {
				return a[0], nil
			}
			if a[0].K != val.Arr {
				return val.U, other("join takes an array of strings")
			}
			parts := make([]string, len(a[0].A))
			for i, e := range a[0].A {
				if e.K != val.Str {
					return val.U, other("join takes an array of strings")
				}
				parts[i] = e.S
			}
			return val.S(strings.Join(parts, a[1].S)), nil
		}},
		"replace": {params: []string{pS, pSF, pSF, pOI}, ctx: ctxReplace, undef0: true, fn: func(in *Interp, a []val.Value) (val.Value, *Err) {
			if a[1].K != val.Str {
				return val.U, &Err{Kind: "unsupported-regex"}
			}
			limit := int(a[3].N)
			if limit < 0 {
				return val.U, other("negative limit")
			}
			if a[1].S == "" {
				return val.U, other("empty pattern")
			}
			if a[2].K != val.Str {
				return val.U, other("replacement must be a string")
			}
			max := -1
			if !a[3].IsUndef() {
				max = limit
			}
			return val.S(ReplaceRef(a[0].S, a[1].S, a[2].S, max)), nil
		}},
		"number": {params: []string{pSNB}, ctx: ctxArgc0, undef0: true, fn: func(in *Interp, a []val.Value) (val.Value, *Err) {
			switch a[0].K {
			case val.Bool:
				if a[0].B {
					return val.N(1), nil
				}
				return val.N(0), nil
			case val.Num:
				return a[0], nil
			}
			if x, ok := ParseNumberRef(a[0].S); ok {
				return val.N(x), nil
			}
			return val.U, other("unable to cast to a number")
		}},
		"abs":   {params: []string{pN}, ctx: ctxArgc0, undef0: true, fn: func(in *Interp, a []val.Value) (val.Value, *Err) { return val.N(math.Abs(a[0].N)), nil }},
		"floor": {params: []string{pN}, ctx: ctxArgc0, undef0: true, fn: func(in *Interp, a []val.Value) (val.Value, *Err) { return val.N(math.Floor(a[0].N)), nil }},
		"ceil":  {params: []string{pN}, ctx: ctxArgc0, undef0: true, fn: func(in *Interp, a []val.Value) (val.Value, *Err) { return val.N(math.Ceil(a[0].N)), nil }},
		"round": {params: []string{pN, pOI}, ctx: ctxArgc0, undef0: true, fn: func(in *Interp, a []val.Value) (val.Value, *Err) {
			return val.N(RoundHalfEven(a[0].N, int(a[1].N))), nil
		}},
		"power": {params: []string{pN, pN}, ctx: ctxArgc1, undef0: true, fn: func(in *Interp, a []val.Value) (val.Value, *Err) {
			r := math.Pow(a[0].N, a[1].N)
			if math.IsInf(r, 0) || math.IsNaN(r) {
				return val.U, other("power out of range")
			}
			return val.N(r), nil
		}},
		"sqrt": {params: []string{pN}, ctx: ctxArgc0, undef0: true, fn: func(in *Interp, a []val.Value) (val.Value, *Err) {
			if a[0].N < 0 {
				return val.U, other("sqrt of a negative number")
			}
			return val.N(math.Sqrt(a[0].N)), nil
		}},
		"sum": {params: []string{pV}, undef0: true, fn: func(in *Interp, a []val.Value) (val.Value, *Err) {
			xs, single, isSingle, err := aggregate("sum", a[0])
			if err != nil {
				return val.U, err
			}
			if isSingle {
				return val.N(single), nil
			}
			s := 0.0
			for _, x := range xs {
				s += x
			}
			if math.IsInf(s, 0) {
				return val.U, other("sum out of range")
			}
			return val.N(s), nil
		}},
		"max": {params: []string{pV}, undef0: true, fn: func(in *Interp, a []val.Value) (val.Value, *Err) {
			xs, single, isSingle, err := aggregate("max", a[0])
			if err != nil {
				return val.U, err
			}
			if isSingle {
				return val.N(single), nil
			}
			if len(xs) == 0 {
				return val.U, nil
			}
			m := xs[0]
			for _, x := range xs[1:] {
				if x > m {
					m = x
				}
			}
			return val.N(m), nil
		}},
		"min": {params: []string{pV}, undef0: true, fn: func(in *Interp, a []val.Value) (val.Value, *Err) {
			xs, single, isSingle, err := aggregate("min", a[0])
			if err != nil {
				return val.U, err
			}
			if isSingle {
				return val.N(single), nil
			}
			if len(xs) == 0 {
				return val.U, nil
			}
			m := xs[0]
			for _, x := range xs[1:] {
				if x < m {
					m = x
				}
			}
			return val.N(m), nil
		}},
		"average": {params: []string{pV}, undef0: true, fn: func(in *Interp, a []val.Value) (val.Value, *Err) {
			xs, single, isSingle, err := aggregate("average", a[0])
			if err != nil {
				return val.U, err
			}
			if isSingle {
				return val.N(single), nil
			}
			if len(xs) == 0 {
				return val.U, nil
			}
			s := 0.0
			for _, x := range xs {
				s += x
			}
			if math.IsInf(s, 0) {
				return val.U, other("average out of range")
			}
			return val.N(s / float64(len(xs))), nil
		}},
		"boolean": {params: []string{pV}, ctx: ctxArgc0, undef0: true, fn: func(in *Interp, a []val.Value) (val.Value, *Err) { return val.B(val.Truthy(a[0])), nil }},
		"not":     {params: []string{pV}, ctx: ctxArgc0, fn: func(in *Interp, a []val.Value) (val.Value, *Err) { return val.B(!val.Truthy(a[0])), nil }},
		"exists":  {params: []string{pV}, fn: func(in *Interp, a []val.Value) (val.Value, *Err) { return val.B(!a[0].IsUndef()), nil }},
		"count": {params: []string{pV}, fn: func(in *Interp, a []val.Value) (val.Value, *Err) {
			switch a[0].K {
			case val.Undef:
				return val.N(0), nil
			case val.Arr:
				return val.N(float64(len(a[0].A))), nil
			}
			return val.N(1), nil
		}},
		"append": {params: []string{pV, pV}, custom: true, fn: func(in *Interp, a []val.Value) (val.Value, *Err) {
			if a[1].IsUndef() {
				return a[0], nil
			}
			if a[0].IsUndef() {
				return a[1], nil
			}
			out := append([]val.Value{}, forceArray(a[0])...)
			out = append(out, forceArray(a[1])...)
			return val.A(out...), nil
		}},
		"reverse": {params: []string{pV}, undef0: true, fn: func(in *Interp, a []val.Value) (val.Value, *Err) {
			xs := forceArray(a[0])
			out := make([]val.Value, len(xs))
			for i, x := range xs {
				out[len(xs)-1-i] = x
			}
			return val.A(out...), nil
		}},
		"sort": {params: []string{pV, pOF}, undef0: true, fn: func(in *Interp, a []val.Value) (val.Value, *Err) {
			return in.sortRef(a[0], a[1])
		}},
		"zip": {params: []string{pV}, variadic: true, fn: func(in *Interp, a []val.Value) (val.Value, *Err) {
			if len(a) == 0 {
				return val.U, other("zip with no arguments")
			}
			size := -1
			var cols [][]val.Value
			for _, x := range a {
				if x.IsUndef() {
					return val.A(), nil
				}
				c := forceArray(x)
				cols = append(cols, c)
				if size < 0 || len(c) < size {
					size = len(c)
				}
			}
			out := make([]val.Value, size)
			for i := 0; i < size; i++ {
				row := make([]val.Value, len(cols))
				for j, c := range cols {
					row[j] = c[i]
				}
				out[i] = val.A(row...)
			}
			return val.A(out...), nil
		}},
		"distinct": {params: []string{pV}, undef0: true, fn: func(in *Interp, a []val.Value) (val.Value, *Err) {
			if a[0].K != val.Arr {
				return a[0], nil
			}
			var out []val.Value
			for _, x := range a[0].A {
				dup := false
				if x.K != val.Fn {
					for _, y := range out {
						if y.K != val.Fn && Eq(x, y) {
							dup = true
							break
						}
					}
				}
				if !dup {
					out = append(out, x)
				}
			}
			return val.A(out...), nil
		}},
		"map": {params: []string{pV, pF}, undef0: true, fn: func(in *Interp, a []val.Value) (val.Value, *Err) {
			xs := forceArray(a[0])
			argc := clamp(ParamCount(a[1]), 1, 3)
			out := []val.Value{}
			for i, x := range xs {
				full := []val.Value{x, val.N(float64(i)), val.A(xs...)}
				r, err := in.Apply(a[1], full[:argc])
				if err != nil {
					return val.U, err
				}
				if !r.IsUndef() {
					out = append(out, r)
				}
			}
			return val.A(out...), nil
		}},
		"filter": {params: []string{pV, pF}, undef0: true, fn: func(in *Interp, a []val.Value) (val.Value, *Err) {
			xs := forceArray(a[0])
			argc := clamp(ParamCount(a[1]), 1, 3)
			out := []val.Value{}
			for i, x := range xs {
				full := []val.Value{x, val.N(float64(i)), val.A(xs...)}
				r, err := in.Apply(a[1], full[:argc])
				if err != nil {
					return val.U, err
				}
				if val.Truthy(r) {
					out = append(out, x)
				}
			}
			return val.A(out...), nil
		}},
		"single": {params: []string{pV, pF}, undef0: true, fn: func(in *Interp, a []val.Value) (val.Value, *Err) {
			xs := forceArray(a[0])
			argc := clamp(ParamCount(a[1]), 1, 3)
			var out []val.Value
			for i, x := range xs {
				full := []val.Value{x, val.N(float64(i)), val.A(xs...)}
				r, err := in.Apply(a[1], full[:argc])
				if err != nil {
					return val.U, err
				}
				if val.Truthy(r) {
					out = append(out, x)
				}
			}
			if len(out) != 1 {
				return val.U, other("single: number of matching values must be 1")
			}
			return out[0], nil
		}},
		"reduce": {params: []string{pV, pF, pOV}, undef0: true, fn: func(in *Interp, a []val.Value) (val.Value, *Err) {
			xs := forceArray(a[0])
			if ParamCount(a[1]) != 2 {
				return val.U, other("reduce needs a function of two arguments")
			}
			var acc val.Value
			i := 0
			switch {
			case !a[2].IsUndef():
				acc = a[2]
			case len(xs) > 0:
				acc = xs[0]
				i = 1
			}
			for ; i < len(xs); i++ {
				r, err := in.Apply(a[1], []val.Value{acc, xs[i]})
				if err != nil {
					return val.U, err
				}
				acc = r
			}
			return acc, nil
		}},
		"keys": {params: []string{pV}, ctx: ctxArgc0, undef0: true, fn: func(in *Interp, a []val.Value) (val.Value, *Err) {
			var ks []string
			seen := map[string]bool{}
			var rec func(v val.Value)
			rec = func(v val.Value) {
				switch v.K {
				case val.Obj:
					for _, k := range v.Keys() {
						if !seen[k] {
							seen[k] = true
							ks = append(ks, k)
						}
					}
				case val.Arr:
					for _, e := range v.A {
						rec(e)
					}
				}
			}
			rec(a[0])
			// nested arrays: the library de-duplicates per level; the flat
			// de-duplication above is equivalent for the result set.
			switch len(ks) {
			case 0:
				return val.U, nil
			case 1:
				return val.S(ks[0]), nil
			}
			out := make([]val.Value, len(ks))
			for i, k := range ks {
				out[i] = val.S(k)
			}
			return val.A(out...), nil
		}},
		"lookup": {params: []string{pV, pS}, ctx: ctxArgc0, undef0: true, fn: func(in *Interp, a []val.Value) (val.Value, *Err) {
			return nameStep(a[1].S, a[0]), nil
		}},
		"spread": {params: []string{pV}, ctx: ctxArgc0, undef0: true, fn: func(in *Interp, a []val.Value) (val.Value, *Err) {
			return spreadRef(a[0]), nil
		}},
		"merge": {params: []string{pV}, undef0: true, fn: func(in *Interp, a []val.Value) (val.Value, *Err) {
			out := map[string]val.Value{}
			switch a[0].K {
			case val.Obj:
				for k, v := range a[0].O {
					out[k] = v
				}
			case val.Arr:
				for _, e := range a[0].A {
					if e.K != val.Obj {
						return val.U, other("merge takes an object or an array of objects")
					}
				}
				for _, e := range a[0].A {
					for k, v := range e.O {
						out[k] = v
					}
				}
			default:
				return val.U, other("merge takes an object or an array of objects")
			}
			return val.O(out), nil
		}},
		"each": {params: []string{pV, pF}, ctx: ctxArgc1, undef0: true, fn: func(in *Interp, a []val.Value) (val.Value, *Err) {
			if a[0].K != val.Obj {
				return val.U, other("argument must be an object")
			}
			pc := ParamCount(a[1])
			if pc < 1 || pc > 3 {
				return val.U, other("function must take 1, 2 or 3 arguments")
			}
			var out []val.Value
			for _, k := range a[0].Keys() {
				full := []val.Value{a[0].O[k], val.S(k), a[0]}
				r, err := in.Apply(a[1], full[:pc])
				if err != nil {
					return val.U, err
				}
				if !r.IsUndef() {
					out = append(out, r)
				}
			}
			switch len(out) {
			case 0:
				return val.U, nil
			case 1:
				return out[0], nil
			}
			return val.A(out...), nil
		}},
		"sift": {params: []string{pV, pF}, ctx: ctxArgc1, undef0: true, fn: func(in *Interp, a []val.Value) (val.Value, *Err) {
			if a[0].K != val.Obj {
				return val.U, other("argument must be an object")
			}
			pc := ParamCount(a[1])
			if pc < 1 || pc > 3 {
				return val.U, other("function must take 1, 2 or 3 arguments")
			}
			out := map[string]val.Value{}
			for _, k := range a[0].Keys() {
				full := []val.Value{a[0].O[k], val.S(k), a[0]}
				r, err := in.Apply(a[1], full[:pc])
				if err != nil {
					return val.U, err
				}
				if val.Truthy(r) {
					out[k] = a[0].O[k]
				}
			}
			if len(out) == 0 {
				return val.U, nil
			}
			return val.O(out), nil
		}},
		"type": {params: []string{pV}, ctx: ctxArgc0, undef0: true, fn: func(in *Interp, a []val.Value) (val.Value, *Err) {
			return val.S(a[0].K.String()), nil
		}},
		"error": {params: []string{pS}, fn: func(in *Interp, a []val.Value) (val.Value, *Err) {
			return val.U, other(a[0].S)
		}},
	}
	// $each's context rule in the port is "no arguments"; $sift's is "one argument".
	builtins["each"].ctx = ctxArgc0
}

func spreadRef(v val.Value) val.Value {
	switch v.K {
	case val.Obj:
		out := []val.Value{}
		for _, k := range v.Keys() {
			out = append(out, val.O(map[string]val.Value{k: v.O[k]}))
		}
		return val.A(out...)
	case val.Arr:
		out := []val.Value{}
		for _, e := range v.A {
			r := spreadRef(e)
			if r.K == val.Arr {
				out = append(out, r.A...)
			} else if !r.IsUndef() {
				out = append(out, r)
			}
		}
		return val.A(out...)
	}
	return v
}

// sortRef is $sort: stable; numbers or strings ascending, or by comparator
// (f(x, y) true = x goes after y).
func (in *Interp) sortRef(v, cmp val.Value) (val.Value, *Err) {
	if v.K != val.Arr {
		return val.A(v), nil
	}
	xs := append([]val.Value{}, v.A...)
	var after func(x, y val.Value) (bool, *Err)
	if !cmp.IsUndef() {
		after = func(x, y val.Value) (bool, *Err) {
			r, err := in.Apply(cmp, []val.Value{x, y})
			if err != nil {
				return false, err
			}
			if r.K != val.Bool {
				return false, other("comparator must return a boolean")
			}
			return r.B, nil
		}
	} else {
		allNum, allStr := true, true
		for _, x := range xs {
			if x.K != val.Num {
				allNum = false
			}
			if x.K != val.Str {
				allStr = false
			}
		}
		if !allNum && !allStr {
			return val.U, other("sort takes an array of strings or numbers")
		}
		after = func(x, y val.Value) (bool, *Err) { return cmpLess(y, x), nil }
	}
	// the comparator's call sequence is not part of the contract; only
	// comparators that are pure are generated, so a merge sort that takes the
	// left element unless it "goes after" the right one is the reference.
	var msort func(xs []val.Value) ([]val.Value, *Err)
	msort = func(xs []val.Value) ([]val.Value, *Err) {
		if len(xs) < 2 {
			return xs, nil
		}
		mid := len(xs) / 2
		l, err := msort(append([]val.Value{}, xs[:mid]...))
		if err != nil {
			return nil, err
		}
		r, err := msort(append([]val.Value{}, xs[mid:]...))
		if err != nil {
			return nil, err
		}
		out := make([]val.Value, 0, len(xs))
		for len(l) > 0 && len(r) > 0 {
			sw, err := after(l[0], r[0])
			if err != nil {
				return nil, err
			}
			if sw {
				out = append(out, r[0])
				r = r[1:]
			} else {
				out = append(out, l[0])
				l = l[1:]
			}
		}
		out = append(out, l...)
		out = append(out, r...)
		return out, nil
	}
	out, err := msort(xs)
	if err != nil {
		return val.U, err
	}
	return val.A(out...), nil
}

// ---------------------------------------------------------------------------
// string function references (on []rune)

// TrimRef collapses runs of whitespace to one space and strips both ends.
// Whitespace is restricted to space, tab, LF, CR (the characters every
// definition agrees on); generators only use those.
func TrimRef(s string) string {
	var out []rune
	inWS := false
	for _, r := range s {
		if r == ' ' || r == '\t' || r == '\n' || r == '\r' {
			inWS = true
			continue
		}
		if inWS && len(out) > 0 {
			out = append(out, ' ')
		}
		inWS = false
		out = append(out, r)
	}
	return string(out)
}

// PadRef pads to |width| code points on the right (positive) or left (negative).
func PadRef(s string, width int, pad string) string {
	if pad == "" {
		pad = " "
	}
	rs := runes(s)
	n := width
	if n < 0 {
		n = -n
	}
	need := n - len(rs)
	if need <= 0 {
		return s
	}
	ps := runes(pad)
	fill := make([]rune, need)
	for i := range fill {
		fill[i] = ps[i%len(ps)]
	}
	if width < 0 {
		return string(fill) + s
	}
	return s + string(fill)
}

// SplitRef is the exhaustive split (per code point for an empty separator).
func SplitRef(s, sep string) []string {
	if sep == "" {
		var out []string
		for _, r := range s {
			out = append(out, string(r))
		}
		if out == nil {
			out = []string{}
		}
		return out
	}
	var out []string
	for {
		i := strings.Index(s, sep)
		if i < 0 {
			break
		}
		out = append(out, s[:i])
		s = s[i+len(sep):]
	}
	return append(out, s)
}

// ReplaceRef is left-to-right non-overlapping replacement, at most max times (max < 0 = all).
func ReplaceRef(s, pat, repl string, max int) string {
	var sb strings.Builder
	n := 0
	for {
		if max >= 0 && n >= max {
			break
		}
		i := strings.Index(s, pat)
		if i < 0 {
			break
		}
		sb.WriteString(s[:i])
		sb.WriteString(repl)
		s = s[i+len(pat):]
		n++
	}
	sb.WriteString(s)
	return sb.String()
}

// ParseNumberRef accepts -?digits(.digits)?([eE][+-]?digits)? and nothing else.
func ParseNumberRef(s string) (float64, bool) {
	i := 0
	if i < len(s) && s[i] == '-' {
		i++
	}
	d0 := i
	for i < len(s) && s[i] >= '0' && s[i] <= '9' {
		i++
	}
	if i == d0 {
		return 0, false
	}
	if i < len(s) && s[i] == '.' {
		i++
		f0 := i
		for i < len(s) && s[i] >= '0' && s[i] <= '9' {
			i++
		}
		if i == f0 {
			return 0, false
		}
	}
	if i < len(s) && (s[i] == 'e' || s[i] == 'E') {
		i++
		if i < len(s) && (s[i] == '+' || s[i] == '-') {
			i++
		}
		e0 := i
		for i < len(s) && s[i] >= '0' && s[i] <= '9' {
			i++
		}
		if i == e0 {
			return 0, false
		}
	}
	if i != len(s) {
		return 0, false
	}
	x, err := strconv.ParseFloat(s, 64)
	if err != nil {
		return 0, false
	}
	return x, true
}

var _ = unicode.ToUpper

// unmodelledBuiltins are built-ins of the library that the reference does not
// implement; a program that uses one is skipped, never judged.
var unmodelledBuiltins = map[string]bool{
	"match": true, "formatNumber": true, "formatBase": true, "base64encode": true, "base64decode": true,
	"decodeUrl": true, "decodeUrlComponent": true, "encodeUrl": true, "encodeUrlComponent": true,
	"random": true, "shuffle": true, "fromMillis": true, "toMillis": true, "now": true, "millis": true,
}
