// Package ast is the generator-side abstract syntax of JSONata programs. The
// harness generates programs as trees, normalises them (inserting the
// parentheses = block nodes that the printed text needs) and prints them; the
// reference evaluator walks the same normalised tree, so the oracle never
// parses JSONata text.
package ast

import (
	"encoding/json"
	"math"
	"regexp"
	"strconv"
	"strings"
)

// Node is one uniform, JSON-serialisable tree node.
type Node struct {
	K      string   `json:"k"`
	S      string   `json:"s,omitempty"`    // name, string value, operator, variable/builtin name, regex pattern
	N      float64  `json:"n,omitempty"`    // number literal
	B      bool     `json:"b,omitempty"`    // boolean literal; Esc for names
	C      []*Node  `json:"c,omitempty"`    // children
	Keep   int      `json:"keep,omitempty"` // path: 1+index of the step that carries the [] marker (0 = none)
	Dirs   []string `json:"dirs,omitempty"` // sort: direction per term ("", "<", ">")
	Params []string `json:"params,omitempty"`
	Sig    string   `json:"sig,omitempty"`   // lambda signature without the angle brackets ("" = untyped)
	Flags  string   `json:"flags,omitempty"` // regex flags
}

// Kinds.
const (
	Num       = "num"
	Str       = "str"
	Bool      = "bool"
	Null      = "null"
	Name      = "name" // S; B = back-quoted
	Var       = "var"  // S ("" = $, "$" = $$)
	Wild      = "wild"
	Desc      = "desc"
	Path      = "path" // C = steps
	Pred      = "pred" // C[0] head, C[1:] filters
	Block     = "block"
	Arr       = "arr"
	Range     = "range" // only directly inside Arr
	Obj       = "obj"   // C = k1, v1, k2, v2 …
	Group     = "group" // C[0] head, then k, v pairs
	Sort      = "sort"  // C[0] head, C[1:] terms; Dirs
	Cond      = "cond"  // C = if, then [, else]
	Assign    = "assign"
	Lambda    = "lambda" // Params, Sig, C[0] body
	Call      = "call"   // C[0] function, C[1:] arguments
	Partial   = "partial"
	Hole      = "hole" // ? placeholder
	Chain     = "chain"
	Transform = "transform" // C = pattern, update [, delete]
	Neg       = "neg"
	Bin       = "bin" // S = operator
	Regex     = "regex"
)

func N(k string, c ...*Node) *Node { return &Node{K: k, C: c} }
func NumN(x float64) *Node         { return &Node{K: Num, N: x} }
func StrN(s string) *Node          { return &Node{K: Str, S: s} }
func BoolN(b bool) *Node           { return &Node{K: Bool, B: b} }
func NullN() *Node                 { return &Node{K: Null} }
func NameN(s string) *Node         { return &Node{K: Name, S: s} }
func VarN(s string) *Node          { return &Node{K: Var, S: s} }
func BinN(op string, l, r *Node) *Node {
	return &Node{K: Bin, S: op, C: []*Node{l, r}}
}
func CallN(fn string, args ...*Node) *Node {
	return &Node{K: Call, C: append([]*Node{VarN(fn)}, args...)}
}
func CallE(f *Node, args ...*Node) *Node {
	return &Node{K: Call, C: append([]*Node{f}, args...)}
}
func PathN(steps ...*Node) *Node  { return &Node{K: Path, C: steps} }
func BlockN(exprs ...*Node) *Node { return &Node{K: Block, C: exprs} }
func ArrN(items ...*Node) *Node   { return &Node{K: Arr, C: items} }
func PredN(head *Node, filters ...*Node) *Node {
	return &Node{K: Pred, C: append([]*Node{head}, filters...)}
}
func LambdaN(params []string, sig string, body *Node) *Node {
	return &Node{K: Lambda, Params: params, Sig: sig, C: []*Node{body}}
}

// Clone makes a deep copy.
func (n *Node) Clone() *Node {
	if n == nil {
		return nil
	}
	c := *n
	c.C = make([]*Node, len(n.C))
	for i, ch := range n.C {
		c.C[i] = ch.Clone()
	}
	c.Dirs = append([]string(nil), n.Dirs...)
	c.Params = append([]string(nil), n.Params...)
	return &c
}

// Count returns the number of nodes.
func (n *Node) Count() int {
	if n == nil {
		return 0
	}
	t := 1
	for _, c := range n.C {
		t += c.Count()
	}
	return t
}

// Walk visits every node.
func (n *Node) Walk(f func(*Node)) {
	if n == nil {
		return
	}
	f(n)
	for _, c := range n.C {
		c.Walk(f)
	}
}

// Has reports whether any node satisfies pred.
func (n *Node) Has(pred func(*Node) bool) bool {
	found := false
	n.Walk(func(x *Node) {
		if pred(x) {
			found = true
		}
	})
	return found
}

// JSON renders the tree as JSON (for replay files).
func (n *Node) JSON() string {
	b, _ := json.Marshal(n)
	return string(b)
}

// ---------------------------------------------------------------------------
// precedence (transcribed from the property statement, not from the parser)

var binPrec = map[string]int{
	"*": 70, "/": 70, "%": 70,
	"+": 60, "-": 60, "&": 60,
	"=": 50, "!=": 50, "<": 50, "<=": 50, ">": 50, ">=": 50, "in": 50,
	"and": 40, "or": 30,
}

// BinPrec returns the precedence of a binary operator.
func BinPrec(op string) int { return binPrec[op] }

func prec(n *Node) int {
	switch n.K {
	case Path:
		return 90
	case Group:
		return 80
	case Bin:
		return binPrec[n.S]
	case Neg:
		return 60
	case Num:
		if n.N < 0 || (n.N == 0 && math.Signbit(n.N)) {
			return 60
		}
		return 100
	case Chain, Sort:
		return 50
	case Cond:
		return 20
	case Assign:
		return 10
	case Range:
		return 0
	}
	return 100
}

func wrap(n *Node, min int) *Node {
	if prec(n) < min {
		return BlockN(n)
	}
	return n
}

// Normalize returns a copy of the tree in which every place where the printed
// text needs parentheses has an explicit block node, nested paths are
// flattened, and nothing else is changed. Printing a normalised tree never
// adds parentheses, so text and tree correspond exactly.
func Normalize(n *Node) *Node {
	if n == nil {
		return nil
	}
	c := *n
	c.C = make([]*Node, len(n.C))
	for i, ch := range n.C {
		c.C[i] = Normalize(ch)
	}
	c.Dirs = append([]string(nil), n.Dirs...)
	c.Params = append([]string(nil), n.Params...)
	switch c.K {
	case Bin:
		p := binPrec[c.S]
		c.C[0] = wrap(c.C[0], p)
		c.C[1] = wrap(c.C[1], p+1)
		// a negative literal or negation to the left of a tighter operator is
		// wrapped by prec(); on the right of + - & it needs wrapping too,
		// because it would otherwise swallow a following * / %.
	case Chain:
		c.C[0] = wrap(c.C[0], 50)
		c.C[1] = wrap(c.C[1], 51)
	case Neg:
		c.C[0] = wrap(c.C[0], 70)
	case Cond:
		c.C[0] = wrap(c.C[0], 21)
		if c.C[1].K == Cond {
			c.C[1] = BlockN(c.C[1])
		}
		c.C[1] = wrap(c.C[1], 1)
		if len(c.C) > 2 {
			c.C[2] = wrap(c.C[2], 1)
		}
	case Assign:
		c.C[0] = wrap(c.C[0], 10)
	case Call, Partial:
		c.C[0] = wrap(c.C[0], 100)
		if c.C[0].K == Name { // a name followed by "(" would be read as a call of a field; keep as is (never generated)
		}
		for i := 1; i < len(c.C); i++ {
			c.C[i] = wrap(c.C[i], 1)
		}
	case Pred:
		c.C[0] = wrap(c.C[0], 100)
		for i := 1; i < len(c.C); i++ {
			c.C[i] = wrap(c.C[i], 1)
		}
		// h[f1][f2] is one node with two filters in the text (the parser decides
		// by the kind of h whether they are stacked or nested); a predicate
		// node whose head is an unparenthesised predicate node is the same text
		if c.C[0].K == Pred {
			c.C = append(append([]*Node{}, c.C[0].C...), c.C[1:]...)
		}
	case Path:
		var steps []*Node
		keep := c.Keep
		for i, s := range c.C {
			if s.K == Path && s.Keep == 0 && keep != i+1 {
				// flatten a nested path without its own marker
				if keep > i+1 {
					keep += len(s.C) - 1
				}
				steps = append(steps, s.C...)
				continue
			}
			steps = append(steps, wrap(s, 100))
		}
		c.C = steps
		c.Keep = keep
	case Group:
		c.C[0] = wrap(c.C[0], 80)
		if c.C[0].K == Group || (c.C[0].K == Path && len(c.C[0].C) > 0 && c.C[0].C[len(c.C[0].C)-1].K == Group) {
			c.C[0] = BlockN(c.C[0])
		}
		for i := 1; i < len(c.C); i++ {
			if i%2 == 1 && c.C[i].K == Cond {
				c.C[i] = BlockN(c.C[i])
			}
			c.C[i] = wrap(c.C[i], 1)
		}
	case Obj:
		for i := range c.C {
			if i%2 == 0 && c.C[i].K == Cond {
				c.C[i] = BlockN(c.C[i])
			}
			c.C[i] = wrap(c.C[i], 1)
		}
	case Sort:
		c.C[0] = wrap(c.C[0], 50)
		for i := 1; i < len(c.C); i++ {
			c.C[i] = wrap(c.C[i], 1)
		}
	case Arr:
		for i := range c.C {
			if c.C[i].K != Range {
				c.C[i] = wrap(c.C[i], 1)
			}
		}
	case Range:
		c.C[0] = wrap(c.C[0], 1)
		c.C[1] = wrap(c.C[1], 1)
	case Block, Lambda, Transform:
		for i := range c.C {
			c.C[i] = wrap(c.C[i], 1)
		}
	}
	return &c
}

// ---------------------------------------------------------------------------
// printing

var rePlainName = regexp.MustCompile(`^[A-Za-z_][A-Za-z0-9_]*$`)

var keywords = map[string]bool{"and": true, "or": true, "in": true, "true": true, "false": true, "null": true, "function": true}

// Style selects among semantically neutral spellings.
type Style struct {
	SingleQuotes bool // use '…' for strings that allow it
	Tight        bool // no spaces around symbolic operators where token separation allows
	BackquoteAll bool // back-quote every field name
}

// Print renders a normalised tree.
func Print(n *Node) string { return PrintStyle(n, Style{}) }

// PrintStyle renders a normalised tree in the given style.
func PrintStyle(n *Node, st Style) string {
	var sb strings.Builder
	p := printer{sb: &sb, st: st}
	p.node(n)
	return sb.String()
}

type printer struct {
	sb *strings.Builder
	st Style
}

func (p *printer) w(s string) { p.sb.WriteString(s) }

// QuoteString renders a string literal.
func QuoteString(s string, single bool) string {
	if single && !strings.ContainsAny(s, "'\\") {
		ok := true
		for _, r := range s {
			if r < 0x20 {
				ok = false
			}
		}
		if ok {
			return "'" + s + "'"
		}
	}
	var sb strings.Builder
	sb.WriteByte('"')
	for _, r := range s {
		switch {
		case r == '"':
			sb.WriteString(`\"`)
		case r == '\\':
			sb.WriteString(`\\`)
		case r == '\n':
			sb.WriteString(`\n`)
		case r == '\r':
			sb.WriteString(`\r`)
		case r == '\t':
			sb.WriteString(`\t`)
		case r < 0x20:
			sb.WriteString(`\u00`)
			sb.WriteString(strconv.FormatInt(int64(r)>>4, 16))
			sb.WriteString(strconv.FormatInt(int64(r)&15, 16))
		default:
			sb.WriteRune(r)
		}
	}
	sb.WriteByte('"')
	return sb.String()
}

// FormatNumber renders a number literal (non-negative magnitude and sign).
func FormatNumber(x float64) string {
	if x == 0 && math.Signbit(x) {
		return "-0"
	}
	s := strconv.FormatFloat(x, 'g', -1, 64)
	// JSONata (like JSON) has no leading '+' in exponents problem: 1e+21 is accepted.
	return s
}

func (p *printer) name(n *Node) {
	if n.B || p.st.BackquoteAll || !rePlainName.MatchString(n.S) || keywords[n.S] {
		p.w("`" + n.S + "`")
		return
	}
	p.w(n.S)
}

func (p *printer) list(ns []*Node, sep string) {
	for i, c := range ns {
		if i > 0 {
			p.w(sep)
		}
		p.node(c)
	}
}

func (p *printer) node(n *Node) {
	switch n.K {
	case Num:
		p.w(FormatNumber(n.N))
	case Str:
		p.w(QuoteString(n.S, p.st.SingleQuotes))
	case Bool:
		if n.B {
			p.w("true")
		} else {
			p.w("false")
		}
	case Null:
		p.w("null")
	case Name:
		p.name(n)
	case Var:
		p.w("$" + n.S)
	case Wild:
		p.w("*")
	case Desc:
		p.w("**")
	case Hole:
		p.w("?")
	case Regex:
		p.w("/" + n.S + "/" + n.Flags)
	case Path:
		for i, s := range n.C {
			if i > 0 {
				p.w(".")
			}
			p.node(s)
			if n.Keep == i+1 {
				p.w("[]")
			}
		}
	case Pred:
		p.node(n.C[0])
		for _, f := range n.C[1:] {
			p.w("[")
			p.node(f)
			p.w("]")
		}
	case Block:
		p.w("(")
		p.list(n.C, "; ")
		p.w(")")
	case Arr:
		p.w("[")
		p.list(n.C, ", ")
		p.w("]")
	case Range:
		p.node(n.C[0])
		p.w("..")
		p.node(n.C[1])
	case Obj:
		p.w("{")
		p.pairs(n.C)
		p.w("}")
	case Group:
		p.node(n.C[0])
		p.w("{")
		p.pairs(n.C[1:])
		p.w("}")
	case Sort:
		p.node(n.C[0])
		p.w("^(")
		for i, t := range n.C[1:] {
			if i > 0 {
				p.w(", ")
			}
			if i < len(n.Dirs) {
				p.w(n.Dirs[i])
			}
			p.node(t)
		}
		p.w(")")
	case Cond:
		p.node(n.C[0])
		p.w(" ? ")
		p.node(n.C[1])
		if len(n.C) > 2 {
			p.w(" : ")
			p.node(n.C[2])
		}
	case Assign:
		p.w("$" + n.S + " := ")
		p.node(n.C[0])
	case Lambda:
		p.w("function(")
		for i, a := range n.Params {
			if i > 0 {
				p.w(", ")
			}
			p.w("$" + a)
		}
		p.w(")")
		if n.Sig != "" {
			p.w("<" + n.Sig + ">")
		}
		p.w("{")
		p.node(n.C[0])
		p.w("}")
	case Call, Partial:
		p.node(n.C[0])
		p.w("(")
		p.list(n.C[1:], ", ")
		p.w(")")
	case Chain:
		p.node(n.C[0])
		p.w(" ~> ")
		p.node(n.C[1])
	case Transform:
		p.w("|")
		p.node(n.C[0])
		p.w("|")
		p.node(n.C[1])
		if len(n.C) > 2 {
			p.w(", ")
			p.node(n.C[2])
		}
		p.w("|")
	case Neg:
		p.w("-")
		p.node(n.C[0])
	case Bin:
		p.node(n.C[0])
		switch {
		case n.S == "and" || n.S == "or" || n.S == "in":
			p.w(" " + n.S + " ")
		case p.st.Tight && n.S != "-" && n.S != "/" && n.S != "*" && n.S != "<" && n.S != ">":
			p.w(n.S)
		default:
			p.w(" " + n.S + " ")
		}
		p.node(n.C[1])
	default:
		p.w("<?" + n.K + "?>")
	}
}

func (p *printer) pairs(kv []*Node) {
	for i := 0; i+1 < len(kv); i += 2 {
		if i > 0 {
			p.w(", ")
		}
		p.node(kv[i])
		p.w(": ")
		p.node(kv[i+1])
	}
}
