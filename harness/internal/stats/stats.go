// Package stats collects what a check actually covered (evaluations, distinct
// non-trivial cases, class histogram, samples), its violations and its
// known-finding hits, and writes them to the per-test stats file that the
// driver (bin/check) merges into /verif/evidence/<id>.json.
package stats

import (
	"encoding/json"
	"fmt"
	"hash/fnv"
	"os"
	"path/filepath"
	"sort"
	"strings"
	"sync"
	"time"
)

// Violation is one failing case that no known-finding matcher claimed.
type Violation struct {
	Check  string `json:"check"`
	Replay string `json:"replay"`
	Msg    string `json:"msg"`
}

// Matcher recognises a known (open) finding from the failing case and the
// failure message. It must be narrow: root cause, not property.
type Matcher func(caseJSON []byte, msg string) bool

type sample struct {
	h uint64
	v interface{}
}

// Recorder is safe for concurrent use.
type Recorder struct {
	ID    string
	Check string
	Tier  string
	Seed  uint64
	Rule  string

	mu            sync.Mutex
	start         time.Time
	evaluations   int64
	nontrivial    map[uint64]struct{}
	classes       map[string]int64
	first         []interface{}
	reservoir     []sample
	exclKnown     map[string]int64
	exclConstr    int64
	inconclusive  int64
	exhaustive    map[string]int64
	allExhaustive bool
	violations    []Violation
	known         []string // KNOWN-FINDING lines (what still fails)
	lastFail      *pendingFail
	journaled     bool // the first failing case has been written to the journal
	notes         map[string]interface{}
	matchers      map[string]Matcher
	fatal         string // exit-2 condition (harness could not do its job)
}

type pendingFail struct {
	caseJSON []byte
	msg      string
}

// Root returns /verif (overridable for tests of the harness itself).
func Root() string {
	if r := os.Getenv("VERIF_ROOT"); r != "" {
		return r
	}
	return "/verif"
}

// Tier returns "quick" or "thorough".
func Tier() string {
	if os.Getenv("VERIF_TIER") == "thorough" {
		return "thorough"
	}
	return "quick"
}

// Thorough reports whether the thorough tier is running.
func Thorough() bool { return Tier() == "thorough" }

// Scale picks the quick or thorough size.
func Scale(quick, thorough int) int {
	if Thorough() {
		return thorough
	}
	return quick
}

// Shard returns (index, count) of this process among the thorough shards.
func Shard() (int, int) {
	var i, n int
	fmt.Sscanf(os.Getenv("VERIF_SHARD"), "%d/%d", &i, &n)
	if n <= 0 {
		return 0, 1
	}
	return i, n
}

// New creates a recorder for property id and check (test) name.
func New(id, check, rule string) *Recorder {
	var seed uint64
	fmt.Sscanf(os.Getenv("VERIF_SEED_EFFECTIVE"), "%d", &seed)
	return &Recorder{
		ID: id, Check: check, Tier: Tier(), Seed: seed, Rule: rule,
		start:      time.Now(),
		nontrivial: map[uint64]struct{}{},
		classes:    map[string]int64{},
		exclKnown:  map[string]int64{},
		exhaustive: map[string]int64{},
		notes:      map[string]interface{}{},
		matchers:   map[string]Matcher{},
	}
}

// Hash is FNV-1a over the canonical text of a case.
func Hash(s string) uint64 {
	h := fnv.New64a()
	h.Write([]byte(s))
	return h.Sum64()
}

// Eval counts n executions against the code under test.
func (r *Recorder) Eval(n int) {
	r.mu.Lock()
	r.evaluations += int64(n)
	r.mu.Unlock()
}

// Case records one executed case: key is its canonical text (for distinctness),
// nontrivial says whether it satisfies the check's non-triviality rule, sample
// is what is written to the evidence if the case is selected as a sample.
func (r *Recorder) Case(key string, nontrivial bool, sampleFn func() interface{}) {
	h := Hash(key)
	r.mu.Lock()
	defer r.mu.Unlock()
	r.evaluations++
	if !nontrivial {
		return
	}
	if _, ok := r.nontrivial[h]; ok {
		return
	}
	r.nontrivial[h] = struct{}{}
	if sampleFn == nil {
		return
	}
	if len(r.first) < 4 {
		r.first = append(r.first, sampleFn())
		return
	}
	// deterministic reservoir: keep the 8 cases with the smallest hash
	const k = 8
	if len(r.reservoir) < k {
		r.reservoir = append(r.reservoir, sample{h, sampleFn()})
		return
	}
	maxI := 0
	for i := range r.reservoir {
		if r.reservoir[i].h > r.reservoir[maxI].h {
			maxI = i
		}
	}
	if h < r.reservoir[maxI].h {
		r.reservoir[maxI] = sample{h, sampleFn()}
	}
}

// Class increments a class counter (generator distribution, outcome classes…).
func (r *Recorder) Class(name string) {
	r.mu.Lock()
	r.classes[name]++
	r.mu.Unlock()
}

// ClassN adds n to a class counter.
func (r *Recorder) ClassN(name string, n int) {
	r.mu.Lock()
	r.classes[name] += int64(n)
	r.mu.Unlock()
}

// ClassCount reads a class counter.
func (r *Recorder) ClassCount(name string) int64 {
	r.mu.Lock()
	defer r.mu.Unlock()
	return r.classes[name]
}

// Evaluations reads the evaluation counter.
func (r *Recorder) Evaluations() int64 {
	r.mu.Lock()
	defer r.mu.Unlock()
	return r.evaluations
}

// Excluded counts a case excluded by construction because of a known finding.
func (r *Recorder) Excluded() {
	r.mu.Lock()
	r.exclConstr++
	r.mu.Unlock()
}

// Inconclusive counts a first-stage timeout that did not reproduce.
func (r *Recorder) Inconclusive() {
	r.mu.Lock()
	r.inconclusive++
	r.mu.Unlock()
}

// Exhaustive records the size of a completely enumerated sub-domain.
func (r *Recorder) Exhaustive(name string, n int) {
	r.mu.Lock()
	r.exhaustive[name] += int64(n)
	r.mu.Unlock()
}

// AllExhaustive marks the whole check as a complete enumeration.
func (r *Recorder) AllExhaustive() { r.allExhaustive = true }

// Note attaches a free-form key to the coverage object.
func (r *Recorder) Note(k string, v interface{}) {
	r.mu.Lock()
	r.notes[k] = v
	r.mu.Unlock()
}

// Fatal marks the run as "could not do its job" (driver exit 2, never a violation).
func (r *Recorder) Fatal(msg string) {
	r.mu.Lock()
	if r.fatal == "" {
		r.fatal = msg
	}
	r.mu.Unlock()
}

// Matcher registers the recogniser of an open finding.
func (r *Recorder) Matcher(slug string, m Matcher) { r.matchers[slug] = m }

// Known records that a listed finding still reproduces.
func (r *Recorder) Known(line string) {
	r.mu.Lock()
	r.known = append(r.known, line)
	r.mu.Unlock()
}

// Fail reports a failing case. It returns false when an open-finding matcher
// claims the case (the caller then carries on as if the case had passed), and
// true when the caller should fail the (rapid) test so that it gets shrunk.
// The last failing case seen before the test function returns is the minimal
// one (rapid re-runs the minimal case last) and becomes the replay file.
func (r *Recorder) Fail(c interface{}, msg string) bool {
	b, err := json.Marshal(c)
	if err != nil {
		b = []byte(fmt.Sprintf("%q", fmt.Sprint(c)))
	}
	active := ActiveOpenSlugs(r.ID)
	for slug, m := range r.matchers {
		if !active[slug] {
			continue
		}
		if m(b, msg) {
			r.mu.Lock()
			r.exclKnown[slug]++
			r.mu.Unlock()
			return false
		}
	}
	r.mu.Lock()
	r.lastFail = &pendingFail{caseJSON: b, msg: msg}
	first := !r.journaled
	r.journaled = true
	r.mu.Unlock()
	if first {
		// The first failing case is saved at once (before shrinking): if the
		// process is killed later (a hang that exhausts the driver's time
		// limit) the driver still reports it from the journal.
		r.journal(r.writeReplay(b, msg), msg)
	}
	return true
}

func (r *Recorder) replayDir() string {
	dir := filepath.Join(Root(), "replays", r.ID)
	if d := os.Getenv("VERIF_REPLAY_DIR"); d != "" {
		// runs against a scratch copy of the repository (mutation testing of
		// the checks) keep their replays out of /verif/replays
		dir = filepath.Join(d, r.ID)
	}
	os.MkdirAll(dir, 0o755)
	return dir
}

func (r *Recorder) writeReplay(caseJSON []byte, msg string) string {
	name := fmt.Sprintf("%s-%016x.json", r.Check, Hash(string(caseJSON)))
	path := filepath.Join(r.replayDir(), name)
	doc := map[string]interface{}{
		"property": r.ID,
		"check":    r.Check,
		"msg":      msg,
		"case":     json.RawMessage(caseJSON),
	}
	b, _ := json.MarshalIndent(doc, "", " ")
	os.WriteFile(path, append(b, '\n'), 0o644)
	return path
}

// journal appends a violation to an append-only file next to the stats files;
// the driver reads it only for processes that never wrote their stats.
func (r *Recorder) journal(path, msg string) {
	dir := os.Getenv("VERIF_STATS_DIR")
	if dir == "" {
		return
	}
	shard, _ := Shard()
	b, _ := json.Marshal(Violation{Check: r.Check, Replay: path, Msg: msg})
	f, err := os.OpenFile(filepath.Join(dir, fmt.Sprintf("journal.%s.%d.jsonl", strings.ReplaceAll(r.Check, "/", "_"), shard)), os.O_APPEND|os.O_CREATE|os.O_WRONLY, 0o644)
	if err != nil {
		return
	}
	f.Write(append(b, '\n'))
	f.Close()
}

// FailNow is Fail for enumeration loops: the violation is recorded at once
// (no shrinking). It returns the number of violations recorded so far.
func (r *Recorder) FailNow(c interface{}, msg string) int {
	if r.Fail(c, msg) {
		r.flushFail()
	}
	r.mu.Lock()
	defer r.mu.Unlock()
	return len(r.violations)
}

// FlushFail records the pending failing case (see Fail) as a violation at once,
// without waiting for a shrunk version of it.
func (r *Recorder) FlushFail() { r.flushFail() }

// ViolationWithFile records a violation whose replay file already exists.
func (r *Recorder) ViolationWithFile(path, msg string) {
	r.mu.Lock()
	r.violations = append(r.violations, Violation{Check: r.Check, Replay: path, Msg: msg})
	r.mu.Unlock()
}

// Violations returns the number of violations recorded so far.
func (r *Recorder) Violations() int {
	r.mu.Lock()
	defer r.mu.Unlock()
	return len(r.violations)
}

func (r *Recorder) flushFail() {
	r.mu.Lock()
	pf := r.lastFail
	r.lastFail = nil
	r.mu.Unlock()
	if pf == nil {
		return
	}
	path := r.writeReplay(pf.caseJSON, pf.msg)
	r.journal(path, pf.msg)
	r.mu.Lock()
	r.violations = append(r.violations, Violation{Check: r.Check, Replay: path, Msg: pf.msg})
	r.mu.Unlock()
}

// Close flushes a pending failure to a replay file and writes the stats file.
// Call it deferred from the test function.
func (r *Recorder) Close() {
	r.flushFail()
	dir := os.Getenv("VERIF_STATS_DIR")
	if dir == "" {
		return
	}
	r.mu.Lock()
	defer r.mu.Unlock()
	samples := append([]interface{}{}, r.first...)
	sort.Slice(r.reservoir, func(i, j int) bool { return r.reservoir[i].h < r.reservoir[j].h })
	for _, s := range r.reservoir {
		samples = append(samples, s.v)
	}
	hashes := make([]string, 0, len(r.nontrivial))
	// distinct hashes are written out so that shards can be merged as a set;
	// capped to keep files small (the count is still exact for the shard).
	const maxHashes = 400000
	for h := range r.nontrivial {
		if len(hashes) >= maxHashes {
			break
		}
		hashes = append(hashes, fmt.Sprintf("%x", h))
	}
	out := map[string]interface{}{
		"property_id":              r.ID,
		"check":                    r.Check,
		"tier":                     r.Tier,
		"seed":                     r.Seed,
		"rule":                     r.Rule,
		"evaluations":              r.evaluations,
		"distinct_nontrivial":      len(r.nontrivial),
		"hashes":                   hashes,
		"classes":                  r.classes,
		"samples":                  samples,
		"excluded_known":           r.exclKnown,
		"excluded_by_construction": r.exclConstr,
		"inconclusive_timeouts":    r.inconclusive,
		"exhaustive_parts":         r.exhaustive,
		"exhaustive":               r.allExhaustive,
		"violations":               r.violations,
		"known_findings":           r.known,
		"notes":                    r.notes,
		"fatal":                    r.fatal,
		"wall_s":                   time.Since(r.start).Seconds(),
	}
	b, _ := json.Marshal(out)
	shard, _ := Shard()
	name := fmt.Sprintf("%s.%d.json", strings.ReplaceAll(r.Check, "/", "_"), shard)
	os.WriteFile(filepath.Join(dir, name), b, 0o644)
}

// ---------------------------------------------------------------------------
// KNOWN_FINDINGS.txt

// Finding is one line of /verif/KNOWN_FINDINGS.txt.
type Finding struct {
	State    string // "open" or "fixed"
	Property string
	Slug     string
	Witness  string // replay file relative to /verif
	Commit   string
	Text     string
}

var (
	findingsOnce sync.Once
	findings     []Finding
)

// Findings parses KNOWN_FINDINGS.txt (never written at run time).
func Findings() []Finding {
	findingsOnce.Do(func() {
		b, err := os.ReadFile(filepath.Join(Root(), "KNOWN_FINDINGS.txt"))
		if err != nil {
			return
		}
		for _, line := range strings.Split(string(b), "\n") {
			line = strings.TrimSpace(line)
			if line == "" || strings.HasPrefix(line, "#") {
				continue
			}
			var f Finding
			switch {
			case strings.HasPrefix(line, "open:"):
				f.State = "open"
				line = strings.TrimSpace(line[5:])
			case strings.HasPrefix(line, "fixed:"):
				f.State = "fixed"
				line = strings.TrimSpace(line[6:])
			default:
				continue
			}
			rest := []string{}
			for _, tok := range strings.Fields(line) {
				switch {
				case strings.HasPrefix(tok, "property=") && f.Property == "":
					f.Property = tok[9:]
				case strings.HasPrefix(tok, "finding=") && f.Slug == "":
					f.Slug = tok[8:]
				case strings.HasPrefix(tok, "witness=") && f.Witness == "":
					f.Witness = tok[8:]
				case strings.HasPrefix(tok, "commit=") && f.Commit == "":
					f.Commit = tok[7:]
				case f.State == "fixed" && f.Commit == "" && len(rest) == 0 && isHex(tok):
					f.Commit = tok
				default:
					rest = append(rest, tok)
				}
			}
			f.Text = strings.Join(rest, " ")
			findings = append(findings, f)
		}
	})
	return findings
}

func isHex(s string) bool {
	if len(s) < 7 || len(s) > 40 {
		return false
	}
	for _, c := range s {
		if !((c >= '0' && c <= '9') || (c >= 'a' && c <= 'f')) {
			return false
		}
	}
	return true
}

var (
	activeMu sync.Mutex
	inactive = map[string]bool{} // "prop/slug" whose witness no longer fails
)

// Deactivate marks an open finding as not reproducing: its matcher is inert.
func Deactivate(prop, slug string) {
	activeMu.Lock()
	inactive[prop+"/"+slug] = true
	activeMu.Unlock()
}

// ActiveOpenSlugs lists the open findings of a property whose matcher may fire.
func ActiveOpenSlugs(prop string) map[string]bool {
	out := map[string]bool{}
	activeMu.Lock()
	defer activeMu.Unlock()
	for _, f := range Findings() {
		if f.State == "open" && f.Property == prop && !inactive[prop+"/"+f.Slug] {
			out[f.Slug] = true
		}
	}
	return out
}
