package gen

import (
	"fmt"

	"pgregory.net/rapid"

	"verif/harness/internal/ast"
)

// The chaotic program generator: any expression in any operand / argument
// position, every built-in with every arity from 0 to max+1 — for the checks
// that need no value oracle (totality, repeatability, immutability, result
// closure).
//
// Termination is by construction:
//   * every variable is assigned at most once and only referenced after its
//     assignment (closures never see a later rebinding);
//   * in callee and callback positions only built-ins, function variables bound
//     before the enclosing lambda, lambda literals, partial applications and
//     chains of those, or plain data (names, literals) appear — never a
//     parameter, the context item or a data variable, so no function can reach
//     itself;
//   * range bounds and padding widths are small literals or input members.

// BuiltinArity lists every built-in with its maximum number of parameters.
var BuiltinArity = map[string]int{
	"string": 1, "length": 1, "substring": 3, "substringBefore": 2, "substringAfter": 2, "uppercase": 1,
	"lowercase": 1, "pad": 3, "trim": 1, "contains": 2, "split": 3, "join": 2, "match": 3, "replace": 4,
	"formatNumber": 3, "formatBase": 2, "base64encode": 1, "base64decode": 1, "decodeUrl": 1,
	"decodeUrlComponent": 1, "encodeUrl": 1, "encodeUrlComponent": 1, "number": 1, "abs": 1, "floor": 1,
	"ceil": 1, "round": 2, "power": 2, "sqrt": 1, "random": 0, "sum": 1, "max": 1, "min": 1, "average": 1,
	"boolean": 1, "not": 1, "exists": 1, "distinct": 1, "count": 1, "reverse": 1, "sort": 2, "shuffle": 1,
	"zip": 3, "append": 2, "map": 2, "filter": 2, "reduce": 3, "single": 2, "each": 2, "sift": 2, "keys": 1,
	"lookup": 2, "spread": 1, "merge": 1, "fromMillis": 3, "toMillis": 3, "type": 1, "error": 1, "now": 2, "millis": 0,
}

// callbackPos[name][i] = argument i (0-based) is called by the built-in.
var callbackPos = map[string]map[int]bool{
	"contains": {1: true}, "split": {1: true}, "match": {1: true}, "replace": {1: true, 2: true},
	"map": {1: true}, "filter": {1: true}, "reduce": {1: true}, "single": {1: true}, "each": {1: true},
	"sift": {1: true}, "sort": {1: true},
}

// boundedNumPos[name][i] = argument i sizes an allocation.
var boundedNumPos = map[string]map[int]bool{"pad": {1: true}}

// argument hints: s string, n number, a array, o object, f function, x any
var argHints = map[string]string{
	"string": "x", "length": "s", "substring": "snn", "substringBefore": "ss", "substringAfter": "ss", "uppercase": "s",
	"lowercase": "s", "pad": "sns", "trim": "s", "contains": "sr", "split": "srn", "join": "as", "match": "srn", "replace": "srsn",
	"formatNumber": "npo", "formatBase": "nn", "base64encode": "s", "base64decode": "s", "decodeUrl": "s",
	"decodeUrlComponent": "s", "encodeUrl": "s", "encodeUrlComponent": "s", "number": "x", "abs": "n", "floor": "n",
	"ceil": "n", "round": "nn", "power": "nn", "sqrt": "n", "random": "", "sum": "a", "max": "a", "min": "a", "average": "a",
	"boolean": "x", "not": "x", "exists": "x", "distinct": "a", "count": "a", "reverse": "a", "sort": "af", "shuffle": "a",
	"zip": "aaa", "append": "aa", "map": "af", "filter": "af", "reduce": "afx", "single": "af", "each": "of", "sift": "of", "keys": "o",
	"lookup": "os", "spread": "o", "merge": "a", "fromMillis": "ndz", "toMillis": "sdz", "type": "x", "error": "s", "now": "dz", "millis": "",
}

// ChaoticOpts configures the chaotic generator.
type ChaoticOpts struct {
	MaxDepth    int
	Exclude     map[string]bool // built-ins never generated
	NoTransform bool
	EdgeNumbers bool // also feed the edge-number set to numeric parameters
}

type scope struct {
	dataVars []string
	fnVars   []string
	params   []string
	inLambda bool
	nextVar  *int
}

func (s scope) child() scope {
	c := s
	c.dataVars = append([]string{}, s.dataVars...)
	c.fnVars = append([]string{}, s.fnVars...)
	c.params = append([]string{}, s.params...)
	return c
}

type chaotic struct {
	o     ChaoticOpts
	names []string
}

var chaoticNums = []float64{0, 1, 2, 3, -1, 0.5, 10, 2.5, -3, 7, 4}
var chaoticStrs = []string{"", "a", "b", "x", "10", "é", "z", "ab", "a b", "1", "-", "[Y]-[M01]", "#0.00", "😀"}
var edgeNums = []float64{1e21, -1e21, 2147483648, 9223372036854775808, 1e308, 5e-324, -0.5, 1e-7, 4294967296}
var regexLits = [][2]string{{"a", ""}, {"(a)(b)?", "i"}, {"[a-c]+", ""}, {"^", ""}, {"a*", ""}, {"b|(c)", "m"}, {"\\/", ""}, {".", "s"}}

// Chaotic returns a generator of type-chaotic programs.
func Chaotic(o ChaoticOpts) *rapid.Generator[*ast.Node] {
	if o.MaxDepth == 0 {
		o.MaxDepth = 5
	}
	g := &chaotic{o: o, names: append(append([]string{}, Names...), "zz")}
	return rapid.Custom(func(t *rapid.T) *ast.Node {
		n := 0
		sc := scope{nextVar: &n}
		d := rapid.IntRange(1, o.MaxDepth).Draw(t, "depth")
		// half of the programs are a block with bindings first
		if rapid.Bool().Draw(t, "block") {
			return g.block(t, sc, d)
		}
		return g.expr(t, sc, d)
	})
}

func (g *chaotic) pick(t *rapid.T, label string, n int) int {
	return rapid.IntRange(0, n-1).Draw(t, label)
}

func (g *chaotic) leaf(t *rapid.T, sc scope) *ast.Node {
	switch g.pick(t, "leaf", 14) {
	case 0, 1:
		return ast.NumN(rapid.SampledFrom(chaoticNums).Draw(t, "num"))
	case 2:
		if g.o.EdgeNumbers {
			return ast.NumN(rapid.SampledFrom(edgeNums).Draw(t, "edge"))
		}
		return ast.NumN(rapid.SampledFrom(chaoticNums).Draw(t, "num"))
	case 3, 4:
		return ast.StrN(rapid.SampledFrom(chaoticStrs).Draw(t, "str"))
	case 5:
		return ast.BoolN(rapid.Bool().Draw(t, "bool"))
	case 6:
		return ast.NullN()
	case 7, 8, 9:
		return ast.NameN(rapid.SampledFrom(g.names).Draw(t, "name"))
	case 10:
		return ast.VarN(rapid.SampledFrom([]string{"", "", "$"}).Draw(t, "ctxvar"))
	case 11:
		vars := append(append([]string{}, sc.dataVars...), sc.params...)
		vars = append(vars, sc.fnVars...)
		if len(vars) == 0 {
			return ast.VarN("undefinedVar")
		}
		return ast.VarN(rapid.SampledFrom(vars).Draw(t, "var"))
	case 12:
		if g.pick(t, "wd", 2) == 0 {
			return ast.N(ast.Wild)
		}
		return ast.N(ast.Desc)
	default:
		// a built-in function as a value
		return ast.VarN(g.valueBuiltin(t))
	}
}

func (g *chaotic) builtinName(t *rapid.T) string {
	names := make([]string, 0, len(BuiltinArity))
	for n := range BuiltinArity {
		if !g.o.Exclude[n] {
			names = append(names, n)
		}
	}
	sortStrings(names)
	return rapid.SampledFrom(names).Draw(t, "builtin")
}

// valueBuiltin is builtinName for positions where the function is used as a
// value (bare reference, callee of a partial application): a built-in whose
// argument sizes an allocation ($pad) is left out there, because the number it
// finally receives ($millis(), a product, ...) cannot be bounded by
// construction and a padding of 10^12 characters exhausts the memory of an
// in-process check. $pad is still called directly with a bounded width.
func (g *chaotic) valueBuiltin(t *rapid.T) string {
	names := make([]string, 0, len(BuiltinArity))
	for n := range BuiltinArity {
		if !g.o.Exclude[n] && len(boundedNumPos[n]) == 0 {
			names = append(names, n)
		}
	}
	sortStrings(names)
	return rapid.SampledFrom(names).Draw(t, "builtinValue")
}

func sortStrings(s []string) {
	for i := 1; i < len(s); i++ {
		for j := i; j > 0 && s[j] < s[j-1]; j-- {
			s[j], s[j-1] = s[j-1], s[j]
		}
	}
}

func (g *chaotic) regex(t *rapid.T) *ast.Node {
	r := rapid.SampledFrom(regexLits).Draw(t, "regex")
	return &ast.Node{K: ast.Regex, S: r[0], Flags: r[1]}
}

// boundedNum: a small literal or an input member.
func (g *chaotic) boundedNum(t *rapid.T) *ast.Node {
	switch g.pick(t, "bnum", 4) {
	case 0:
		return ast.NameN(rapid.SampledFrom(g.names).Draw(t, "name"))
	case 1:
		if g.o.EdgeNumbers {
			// no 2^31 / 2^32 here: a padding of that width is legitimate and
			// merely allocates gigabytes
			return ast.NumN(rapid.SampledFrom([]float64{1e21, -1e21, 9223372036854775808, 1e308, 5e-324, -0.5, 1e-7}).Draw(t, "edge"))
		}
	}
	return ast.NumN(rapid.SampledFrom([]float64{0, 1, 2, 3, 5, -1, -4, 0.5, 6}).Draw(t, "small"))
}

// callee: something safe to call.
func (g *chaotic) callee(t *rapid.T, sc scope, depth int) *ast.Node {
	switch k := g.pick(t, "callee", 12); {
	case k < 5:
		return ast.VarN(g.valueBuiltin(t))
	case k < 7 && len(sc.fnVars) > 0:
		return ast.VarN(rapid.SampledFrom(sc.fnVars).Draw(t, "fnvar"))
	case k < 9 && depth > 0:
		return g.lambda(t, sc, depth-1)
	case k == 9 && depth > 0:
		return g.partial(t, sc, depth-1)
	case k == 10:
		return g.regex(t)
	}
	// plain data: calling it is an error, not a crash
	switch g.pick(t, "junk", 3) {
	case 0:
		return ast.NameN(rapid.SampledFrom(g.names).Draw(t, "name"))
	case 1:
		return ast.BlockN(ast.NumN(1))
	}
	return ast.BlockN(ast.StrN("a"))
}

func (g *chaotic) lambda(t *rapid.T, sc scope, depth int) *ast.Node {
	np := g.pick(t, "nparams", 4)
	body := sc.child()
	body.inLambda = true
	var params []string
	for i := 0; i < np; i++ {
		*sc.nextVar++
		p := fmt.Sprintf("p%d", *sc.nextVar)
		params = append(params, p)
	}
	body.params = append(body.params, params...)
	sig := ""
	if np > 0 && g.pick(t, "typed", 4) == 0 {
		letters := []string{"n", "s", "b", "a", "o", "f", "j", "x", "l", "(ns)", "a<n>", "x?", "n+", "s-", "x-"}
		for i := 0; i < np; i++ {
			sig += rapid.SampledFrom(letters).Draw(t, "sigLetter")
		}
	}
	return ast.LambdaN(params, sig, g.expr(t, body, depth))
}

func (g *chaotic) partial(t *rapid.T, sc scope, depth int) *ast.Node {
	var f *ast.Node
	if len(sc.fnVars) > 0 && g.pick(t, "pf", 2) == 0 {
		f = ast.VarN(rapid.SampledFrom(sc.fnVars).Draw(t, "fnvar"))
	} else {
		f = ast.VarN(g.valueBuiltin(t))
	}
	n := rapid.IntRange(1, 3).Draw(t, "pargs")
	args := make([]*ast.Node, n)
	hole := false
	for i := range args {
		if g.pick(t, "hole", 2) == 0 {
			args[i] = ast.N(ast.Hole)
			hole = true
		} else if f.K == ast.Var && BuiltinArity[f.S] > 0 {
			args[i] = g.arg(t, sc, depth, f.S, i)
		} else {
			args[i] = g.expr(t, sc, depth)
		}
	}
	if !hole {
		args[0] = ast.N(ast.Hole)
	}
	return &ast.Node{K: ast.Partial, C: append([]*ast.Node{f}, args...)}
}

func (g *chaotic) hinted(t *rapid.T, sc scope, depth int, hint byte) *ast.Node {
	switch hint {
	case 's':
		switch g.pick(t, "hs", 4) {
		case 0:
			return ast.NameN(rapid.SampledFrom(g.names).Draw(t, "name"))
		case 1:
			if depth > 0 {
				return ast.BinN("&", g.expr(t, sc, depth-1), ast.StrN("x"))
			}
		}
		return ast.StrN(rapid.SampledFrom(chaoticStrs).Draw(t, "str"))
	case 'n':
		if g.o.EdgeNumbers && g.pick(t, "edgeP", 3) == 0 {
			return ast.NumN(rapid.SampledFrom(edgeNums).Draw(t, "edge"))
		}
		switch g.pick(t, "hn", 4) {
		case 0:
			return ast.NameN(rapid.SampledFrom(g.names).Draw(t, "name"))
		case 1:
			if depth > 0 {
				return ast.CallN("count", g.expr(t, sc, depth-1))
			}
		}
		return ast.NumN(rapid.SampledFrom(chaoticNums).Draw(t, "num"))
	case 'a':
		switch g.pick(t, "ha", 4) {
		case 0:
			return ast.NameN(rapid.SampledFrom(g.names).Draw(t, "name"))
		case 1:
			return ast.ArrN(ast.N(ast.Range, ast.NumN(float64(g.pick(t, "lo", 3))), ast.NumN(float64(g.pick(t, "hi", 6)))))
		}
		n := g.pick(t, "alen", 4)
		items := make([]*ast.Node, n)
		for i := range items {
			d := depth - 1
			if d < 0 {
				d = 0
			}
			items[i] = g.expr(t, sc, d)
		}
		return ast.ArrN(items...)
	case 'o':
		switch g.pick(t, "ho", 3) {
		case 0:
			return ast.VarN("")
		case 1:
			return ast.NameN(rapid.SampledFrom(g.names).Draw(t, "name"))
		}
		d := depth - 1
		if d < 0 {
			d = 0
		}
		return ast.N(ast.Obj, ast.StrN(rapid.SampledFrom(g.names).Draw(t, "k")), g.expr(t, sc, d))
	case 'f', 'r':
		if hint == 'r' && g.pick(t, "re", 2) == 0 {
			if g.pick(t, "restr", 2) == 0 {
				return ast.StrN(rapid.SampledFrom([]string{"a", "", "b", " "}).Draw(t, "sep"))
			}
			return g.regex(t)
		}
		return g.callee(t, sc, depth)
	case 'p': // number picture
		if g.pick(t, "pgrammar", 2) == 0 {
			return ast.StrN(NumberPictureSoup().Draw(t, "psoup"))
		}
		return ast.StrN(rapid.SampledFrom([]string{"#0.00", "0", "#,##0.0#", "00.0e0", "#.e0", "0%", "0‰", "#;(#)", "", "0.0.0", "abc", "#,##,#0", "0,0.0,0", "9", "#0e00"}).Draw(t, "pic"))
	case 'd': // date picture
		if g.pick(t, "dgrammar", 2) == 0 {
			return ast.StrN(DatePictureSoup().Draw(t, "dsoup"))
		}
		return ast.StrN(rapid.SampledFrom([]string{"[Y]-[M01]-[D01]", "[h]:[m] [P]", "[FNn], [D1o] [MNn]", "[W]", "[Y0001][M01]", "[Z]", "[z]", "[", "[Y", "]", "[Q]", "[Y,*-4]", "[D1o,2-3]", "[f001]", "[Y9999999]", "[d]", "[E][C]"}).Draw(t, "dpic"))
	case 'z': // time zone
		return ast.StrN(rapid.SampledFrom([]string{"+0000", "-0500", "+0530", "-0030", "Z", "", "+1", "+ab00", "+9999", "-1400"}).Draw(t, "tz"))
	}
	return g.expr(t, sc, depth)
}

// arg generates argument number pos of a call of the built-in name: positions
// that the built-in calls get a safe callee, positions that size an allocation
// get a bounded number, the others a hinted or a chaotic expression.
func (g *chaotic) arg(t *rapid.T, sc scope, d int, name string, pos int) *ast.Node {
	hints := argHints[name]
	switch {
	case callbackPos[name][pos]:
		h := byte('f')
		if pos < len(hints) && hints[pos] == 'r' {
			h = 'r'
		}
		if name == "replace" && pos == 2 && g.pick(t, "replStr", 2) == 0 {
			return ast.StrN(rapid.SampledFrom([]string{"$0", "<$1>", "$$", "x", "$12", "$", "$99999999999999999999", "$18446744073709551617", "$1$2$3$4$5$6$7$8$9$10$11"}).Draw(t, "repl"))
		}
		return g.hinted(t, sc, d, h)
	case boundedNumPos[name][pos]:
		return g.boundedNum(t)
	case pos < len(hints) && g.pick(t, "useHint", 10) < 6:
		return g.hinted(t, sc, d, hints[pos])
	}
	return g.expr(t, sc, d)
}

func (g *chaotic) call(t *rapid.T, sc scope, depth int) *ast.Node {
	return g.callOffset(t, sc, depth, 0)
}

// callOffset generates a built-in call whose arguments will sit offset
// positions further right at run time (the chain operator inserts its left
// side as the first argument).
func (g *chaotic) callOffset(t *rapid.T, sc scope, depth int, offset int) *ast.Node {
	name := g.builtinName(t)
	max := BuiltinArity[name]
	argc := rapid.IntRange(0, max+1).Draw(t, "argc")
	if g.pick(t, "fullArity", 3) > 0 {
		// most calls use a plausible arity
		lo := max - 1
		if lo < 0 {
			lo = 0
		}
		argc = rapid.IntRange(lo, max).Draw(t, "argc2")
		if max > 0 && argc == 0 && g.pick(t, "ctxCall", 2) == 0 {
			argc = 1
		}
	}
	argc -= offset
	if argc < 0 {
		argc = 0
	}
	args := make([]*ast.Node, argc)
	d := depth - 1
	if d < 0 {
		d = 0
	}
	for i := range args {
		args[i] = g.arg(t, sc, d, name, i+offset)
	}
	return ast.CallN(name, args...)
}

func (g *chaotic) block(t *rapid.T, sc scope, depth int) *ast.Node {
	inner := sc.child()
	n := rapid.IntRange(1, 4).Draw(t, "stmts")
	var exprs []*ast.Node
	d := depth - 1
	if d < 0 {
		d = 0
	}
	for i := 0; i < n; i++ {
		switch g.pick(t, "stmt", 4) {
		case 0: // bind a data variable
			*sc.nextVar++
			v := fmt.Sprintf("v%d", *sc.nextVar)
			exprs = append(exprs, &ast.Node{K: ast.Assign, S: v, C: []*ast.Node{g.expr(t, inner, d)}})
			inner.dataVars = append(inner.dataVars, v)
		case 1: // bind a function variable (single assignment, defined before use)
			*sc.nextVar++
			v := fmt.Sprintf("f%d", *sc.nextVar)
			var f *ast.Node
			switch g.pick(t, "fkind", 4) {
			case 0:
				f = g.partial(t, inner, d)
			case 1:
				if !g.o.NoTransform {
					f = g.transform(t, inner, d)
					break
				}
				fallthrough
			default:
				f = g.lambda(t, inner, d)
			}
			exprs = append(exprs, &ast.Node{K: ast.Assign, S: v, C: []*ast.Node{f}})
			inner.fnVars = append(inner.fnVars, v)
		default:
			exprs = append(exprs, g.expr(t, inner, d))
		}
	}
	exprs = append(exprs, g.expr(t, inner, d))
	return ast.BlockN(exprs...)
}

func (g *chaotic) transform(t *rapid.T, sc scope, depth int) *ast.Node {
	d := depth - 1
	if d < 0 {
		d = 0
	}
	var pattern *ast.Node
	switch g.pick(t, "tpat", 5) {
	case 0:
		pattern = ast.VarN("")
	case 1:
		pattern = ast.N(ast.Desc)
	case 2:
		pattern = ast.VarN("$")
	default:
		pattern = g.pathExpr(t, sc, d)
	}
	var update *ast.Node
	if g.pick(t, "tupd", 4) == 0 {
		update = g.expr(t, sc, d)
	} else {
		update = ast.N(ast.Obj, ast.StrN(rapid.SampledFrom([]string{"z", "a", "b"}).Draw(t, "uk")), g.expr(t, sc, d))
	}
	c := []*ast.Node{pattern, update}
	switch g.pick(t, "tdel", 4) {
	case 0:
		c = append(c, ast.StrN(rapid.SampledFrom(g.names).Draw(t, "dk")))
	case 1:
		c = append(c, ast.ArrN(ast.StrN("a"), ast.StrN("b")))
	case 2:
		c = append(c, g.expr(t, sc, d))
	}
	return &ast.Node{K: ast.Transform, C: c}
}

func (g *chaotic) step(t *rapid.T, sc scope, depth int, first bool) *ast.Node {
	d := depth - 1
	if d < 0 {
		d = 0
	}
	switch k := g.pick(t, "step", 16); {
	case k < 7:
		return ast.NameN(rapid.SampledFrom(g.names).Draw(t, "name"))
	case k == 7:
		return ast.N(ast.Wild)
	case k == 8:
		return ast.N(ast.Desc)
	case k == 9:
		return ast.VarN(rapid.SampledFrom([]string{"", "$"}).Draw(t, "cv"))
	case k == 10:
		return ast.BlockN(g.expr(t, sc, d))
	case k == 11:
		return ast.ArrN(g.expr(t, sc, d))
	case k == 12:
		return ast.N(ast.Obj, ast.StrN("k"), g.expr(t, sc, d))
	case k == 13:
		return ast.PredN(ast.NameN(rapid.SampledFrom(g.names).Draw(t, "name")), g.expr(t, sc, d))
	case k == 14:
		return g.call(t, sc, d)
	}
	vars := append(append([]string{}, sc.dataVars...), sc.params...)
	if len(vars) > 0 {
		return ast.VarN(rapid.SampledFrom(vars).Draw(t, "var"))
	}
	return ast.NameN("a")
}

func (g *chaotic) pathExpr(t *rapid.T, sc scope, depth int) *ast.Node {
	n := rapid.IntRange(1, 4).Draw(t, "steps")
	steps := make([]*ast.Node, n)
	for i := range steps {
		steps[i] = g.step(t, sc, depth, i == 0)
	}
	p := ast.PathN(steps...)
	if g.pick(t, "keep", 6) == 0 {
		p.Keep = 1 + g.pick(t, "keepAt", n)
	}
	if n == 1 && p.Keep == 0 {
		return steps[0]
	}
	return p
}

var chaoticBinOps = []string{"+", "-", "*", "/", "%", "=", "!=", "<", "<=", ">", ">=", "in", "and", "or", "&"}

func (g *chaotic) expr(t *rapid.T, sc scope, depth int) *ast.Node {
	if depth <= 0 {
		return g.leaf(t, sc)
	}
	d := depth - 1
	switch k := g.pick(t, "expr", 40); {
	case k < 4:
		return g.leaf(t, sc)
	case k < 10:
		return g.pathExpr(t, sc, d)
	case k < 18:
		return g.call(t, sc, depth)
	case k < 21:
		return ast.BinN(rapid.SampledFrom(chaoticBinOps).Draw(t, "op"), g.expr(t, sc, d), g.expr(t, sc, d))
	case k == 21:
		return ast.N(ast.Neg, g.expr(t, sc, d))
	case k == 22:
		c := []*ast.Node{g.expr(t, sc, d), g.expr(t, sc, d)}
		if g.pick(t, "else", 2) == 0 {
			c = append(c, g.expr(t, sc, d))
		}
		return ast.N(ast.Cond, c...)
	case k < 25:
		// predicate on any head
		head := g.expr(t, sc, d)
		nf := rapid.IntRange(1, 2).Draw(t, "nfilters")
		fs := make([]*ast.Node, nf)
		for i := range fs {
			if g.pick(t, "numFilter", 3) == 0 {
				fs[i] = ast.NumN(rapid.SampledFrom([]float64{0, 1, -1, 2, 0.5, -2.5, 9}).Draw(t, "idx"))
			} else {
				fs[i] = g.expr(t, sc, d)
			}
		}
		return ast.PredN(head, fs...)
	case k < 27:
		n := g.pick(t, "alen", 4)
		items := make([]*ast.Node, n)
		for i := range items {
			if g.pick(t, "rangeItem", 6) == 0 {
				items[i] = ast.N(ast.Range, g.boundedNum(t), g.boundedNum(t))
			} else {
				items[i] = g.expr(t, sc, d)
			}
		}
		return ast.ArrN(items...)
	case k == 27:
		n := rapid.IntRange(0, 3).Draw(t, "pairs")
		o := ast.N(ast.Obj)
		for i := 0; i < n; i++ {
			var key *ast.Node
			if g.pick(t, "litKey", 3) > 0 {
				key = ast.StrN(rapid.SampledFrom(g.names).Draw(t, "k"))
			} else {
				key = g.expr(t, sc, d)
			}
			o.C = append(o.C, key, g.expr(t, sc, d))
		}
		return o
	case k == 28:
		// grouping
		o := &ast.Node{K: ast.Group, C: []*ast.Node{g.pathExpr(t, sc, d)}}
		n := rapid.IntRange(1, 2).Draw(t, "pairs")
		for i := 0; i < n; i++ {
			var key *ast.Node
			switch g.pick(t, "gkey", 3) {
			case 0:
				key = ast.StrN(rapid.SampledFrom(g.names).Draw(t, "k"))
			case 1:
				key = ast.NameN(rapid.SampledFrom(g.names).Draw(t, "kn"))
			default:
				key = ast.CallN("string", g.expr(t, sc, d))
			}
			o.C = append(o.C, key, g.expr(t, sc, d))
		}
		return o
	case k == 29:
		// order-by
		s := &ast.Node{K: ast.Sort, C: []*ast.Node{g.pathExpr(t, sc, d)}}
		n := rapid.IntRange(1, 2).Draw(t, "terms")
		for i := 0; i < n; i++ {
			s.C = append(s.C, g.expr(t, sc, d))
			s.Dirs = append(s.Dirs, rapid.SampledFrom([]string{"", "<", ">"}).Draw(t, "dir"))
		}
		return s
	case k < 32:
		return g.block(t, sc, depth)
	case k == 32:
		return g.lambda(t, sc, d)
	case k < 35:
		// call of a safe callee with chaotic arguments
		f := g.callee(t, sc, d)
		n := g.pick(t, "cargs", 4)
		args := make([]*ast.Node, n)
		for i := range args {
			if _, isBuiltin := BuiltinArity[f.S]; f.K == ast.Var && isBuiltin {
				args[i] = g.arg(t, sc, d, f.S, i)
			} else {
				args[i] = g.expr(t, sc, d)
			}
		}
		return ast.CallE(f, args...)
	case k == 35:
		return g.partial(t, sc, d)
	case k < 38:
		// chain: value ~> safe callee / call
		lhs := g.expr(t, sc, d)
		var rhs *ast.Node
		if g.pick(t, "chainCall", 2) == 0 {
			rhs = g.callOffset(t, sc, d, 1)
		} else {
			rhs = g.callee(t, sc, d)
		}
		return ast.N(ast.Chain, lhs, rhs)
	case k == 38:
		if g.o.NoTransform {
			return g.leaf(t, sc)
		}
		return ast.N(ast.Chain, g.expr(t, sc, d), g.transform(t, sc, d))
	default:
		return g.regex(t)
	}
}
