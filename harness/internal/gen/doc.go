// Package gen holds the rapid generators shared by the checks: JSON documents
// and program fragments.
package gen

import (
	"pgregory.net/rapid"

	"verif/harness/internal/val"
)

// Names is the member-name alphabet shared by document and program generators,
// so that generated programs hit generated documents.
var Names = []string{"a", "b", "c", "d", "k"}

// DocOpts are the knobs of the document generator.
type DocOpts struct {
	NullFree     bool    // no JSON null anywhere
	SingleMember bool    // objects have at most one member (Go map order is unspecified)
	NestedArrays float64 // probability that an array member is itself an array
	MaxDepth     int     // default 4
	MaxWidth     int     // default 4
	Names        []string
	NoEmpty      bool // no empty arrays/objects
}

func (o DocOpts) names() []string {
	if len(o.Names) > 0 {
		return o.Names
	}
	return Names
}

var numPool = []float64{0, 1, 2, 3, -1, 0.5, 10, 2.5, -3, 100, 7}
var strPool = []string{"", "a", "b", "x", "10", "é", "z", "ab", "1"}

// Scalar generates a number, string or boolean (null too unless nullFree).
func Scalar(nullFree bool) *rapid.Generator[val.Value] {
	return rapid.Custom(func(t *rapid.T) val.Value {
		n := 10
		if !nullFree {
			n = 11
		}
		switch k := rapid.IntRange(0, n-1).Draw(t, "scalarKind"); {
		case k < 5:
			return val.N(rapid.SampledFrom(numPool).Draw(t, "num"))
		case k < 8:
			return val.S(rapid.SampledFrom(strPool).Draw(t, "str"))
		case k < 10:
			return val.B(rapid.Bool().Draw(t, "bool"))
		}
		return val.NullV
	})
}

// Doc generates a JSON document.
func Doc(o DocOpts) *rapid.Generator[val.Value] {
	if o.MaxDepth == 0 {
		o.MaxDepth = 4
	}
	if o.MaxWidth == 0 {
		o.MaxWidth = 4
	}
	return rapid.Custom(func(t *rapid.T) val.Value {
		// top level: mostly an object, sometimes an array or a scalar
		switch rapid.IntRange(0, 9).Draw(t, "top") {
		case 0:
			return Scalar(o.NullFree).Draw(t, "topScalar")
		case 1, 2:
			return genArr(t, o, 1, false)
		}
		return genObj(t, o, 1)
	})
}

func genValue(t *rapid.T, o DocOpts, depth int, inArray bool) val.Value {
	if depth >= o.MaxDepth {
		return Scalar(o.NullFree).Draw(t, "leaf")
	}
	k := rapid.IntRange(0, 9).Draw(t, "kind")
	if inArray {
		// inside an array: objects are the most interesting members
		nested := rapid.Float64Range(0, 1).Draw(t, "nestP") < o.NestedArrays
		switch {
		case nested:
			return genArr(t, o, depth+1, true)
		case k < 6:
			return genObj(t, o, depth+1)
		}
		return Scalar(o.NullFree).Draw(t, "elem")
	}
	switch {
	case k < 3:
		return Scalar(o.NullFree).Draw(t, "member")
	case k < 7:
		return genArr(t, o, depth+1, false)
	}
	return genObj(t, o, depth+1)
}

func genObj(t *rapid.T, o DocOpts, depth int) val.Value {
	names := o.names()
	max := o.MaxWidth
	if o.SingleMember {
		max = 1
	}
	min := 0
	if o.NoEmpty {
		min = 1
	}
	n := rapid.IntRange(min, max).Draw(t, "members")
	m := map[string]val.Value{}
	for i := 0; i < n; i++ {
		name := rapid.SampledFrom(names).Draw(t, "name")
		if _, dup := m[name]; dup {
			continue
		}
		m[name] = genValue(t, o, depth, false)
	}
	return val.O(m)
}

func genArr(t *rapid.T, o DocOpts, depth int, nested bool) val.Value {
	min := 0
	if o.NoEmpty {
		min = 1
	}
	n := rapid.IntRange(min, o.MaxWidth).Draw(t, "len")
	out := make([]val.Value, n)
	for i := range out {
		out[i] = genValue(t, o, depth, true)
	}
	return val.A(out...)
}

// DocStats measures what a document contains (reported in the evidence).
type DocStats struct {
	ArrayInArray bool
	Depth        int
	HasNull      bool
	HasEmpty     bool
}

// Measure computes DocStats.
func Measure(v val.Value) DocStats {
	var s DocStats
	var rec func(v val.Value, d int, inArr bool)
	rec = func(v val.Value, d int, inArr bool) {
		if d > s.Depth {
			s.Depth = d
		}
		switch v.K {
		case val.Null:
			s.HasNull = true
		case val.Arr:
			if inArr {
				s.ArrayInArray = true
			}
			if len(v.A) == 0 {
				s.HasEmpty = true
			}
			for _, e := range v.A {
				rec(e, d+1, true)
			}
		case val.Obj:
			if len(v.O) == 0 {
				s.HasEmpty = true
			}
			for _, e := range v.O {
				rec(e, d+1, false)
			}
		}
	}
	rec(v, 0, false)
	return s
}
