package gen

import (
	"strings"

	"pgregory.net/rapid"
)

// DatePictureSoup generates date/time pictures from the marker grammar with
// valid and invalid parts: every component letter, presentation modifiers,
// width modifiers with small, large and malformed bounds, literal text and
// bracket escapes.
func DatePictureSoup() *rapid.Generator[string] {
	comp := []string{"Y", "M", "D", "d", "F", "W", "w", "H", "h", "P", "m", "s", "f", "Z", "z", "C", "E", "Q", "y", "", " ", "é"}
	pres := []string{"", "1", "01", "001", "0001", "9", "N", "n", "Nn", "o", "1o", "01o", "a", "A", "i", "I", "w", "Ww", "t", "1t", "01:01", "0101", "0", "Z", "1c", "#", "#1", "1,1", "é"}
	width := []string{"", ",1", ",2", ",*", ",2-4", ",*-2", ",*-4", ",1-*", ",*-*", ",4-2", ",0", ",-1", ",*-64", ",*-100", ",*-19", ",64", ",99999999999999999999", ",a", ",", ",1-2-3", ",3-3"}
	lit := []string{"", "-", ":", " ", "T", "/", "[[", "]]", "]", "[", "x", "é", "."}
	return rapid.Custom(func(t *rapid.T) string {
		var sb strings.Builder
		n := rapid.IntRange(1, 4).Draw(t, "markers")
		for i := 0; i < n; i++ {
			sb.WriteString(rapid.SampledFrom(lit).Draw(t, "lit"))
			sb.WriteString("[")
			sb.WriteString(rapid.SampledFrom(comp).Draw(t, "comp"))
			if rapid.IntRange(0, 3).Draw(t, "digitRun") == 0 {
				// a run of digit placeholders of any length: the digit
				// counts 9, 10 and beyond are limits of several
				// components (nanoseconds, years, int widths)
				run := rapid.SampledFrom([]int{1, 2, 3, 5, 8, 9, 10, 11, 12, 16, 19, 20, 24, 40}).Draw(t, "runLen")
				ch := rapid.SampledFrom([]string{"0", "#", "9"}).Draw(t, "runChar")
				sb.WriteString(strings.Repeat(ch, run-1))
				sb.WriteString(rapid.SampledFrom([]string{"1", "0", ch, "1o", "1t"}).Draw(t, "runEnd"))
			} else {
				sb.WriteString(rapid.SampledFrom(pres).Draw(t, "pres"))
			}
			sb.WriteString(rapid.SampledFrom(width).Draw(t, "width"))
			if rapid.IntRange(0, 12).Draw(t, "unterminated") != 0 {
				sb.WriteString("]")
			}
		}
		sb.WriteString(rapid.SampledFrom(lit).Draw(t, "tail"))
		return sb.String()
	})
}

// DatePictureValidish generates pictures that are mostly accepted: valid
// component letters, presentation formats of the kinds the components take,
// well-formed widths, closed brackets.
func DatePictureValidish() *rapid.Generator[string] {
	comp := []string{"Y", "M", "D", "d", "F", "W", "w", "H", "h", "P", "m", "s", "f", "Z", "z", "C", "E"}
	pres := []string{"", "", "1", "01", "001", "N", "n", "Nn", "1o", "I", "i", "w", "W", "Ww", "wo", "a", "A", "#1", "1,001"}
	width := []string{"", "", "", ",2", ",*-2", ",2-4", ",1-*", ",3-3", ",*-4", ",6"}
	lit := []string{"", "-", ":", " ", "T", "/", "[[", "]]", "x", ".", ", "}
	return rapid.Custom(func(t *rapid.T) string {
		var sb strings.Builder
		n := rapid.IntRange(1, 5).Draw(t, "markers")
		for i := 0; i < n; i++ {
			sb.WriteString(rapid.SampledFrom(lit).Draw(t, "lit"))
			sb.WriteString("[")
			c := rapid.SampledFrom(comp).Draw(t, "comp")
			sb.WriteString(c)
			switch {
			case c == "Z" || c == "z":
				sb.WriteString(rapid.SampledFrom([]string{"", "0", "01", "01:01", "0101", "01:01t", "0101t", "0:00", "Z", "1t", "001"}).Draw(t, "zpres"))
			case rapid.IntRange(0, 4).Draw(t, "digitRun") == 0:
				run := rapid.SampledFrom([]int{1, 2, 3, 4, 5, 8, 9, 10, 11, 12, 16, 19, 20, 24}).Draw(t, "runLen")
				sb.WriteString(strings.Repeat(rapid.SampledFrom([]string{"0", "#"}).Draw(t, "runChar"), run-1))
				sb.WriteString(rapid.SampledFrom([]string{"1", "0", "1o"}).Draw(t, "runEnd"))
			default:
				sb.WriteString(rapid.SampledFrom(pres).Draw(t, "pres"))
			}
			sb.WriteString(rapid.SampledFrom(width).Draw(t, "width"))
			sb.WriteString("]")
		}
		sb.WriteString(rapid.SampledFrom(lit).Draw(t, "tail"))
		return sb.String()
	})
}

// NumberPictureSoup generates decimal-format pictures, valid and invalid.
func NumberPictureSoup() *rapid.Generator[string] {
	parts := []string{"#", "0", "0", "#", ",", ".", "e", "%", "‰", ";", "-", "x", " ", "(", ")", "9", "1", "é", "$"}
	return rapid.Custom(func(t *rapid.T) string {
		ps := rapid.SliceOfN(rapid.SampledFrom(parts), 0, 10).Draw(t, "parts")
		return strings.Join(ps, "")
	})
}
