package gen

import (
	"strings"

	"pgregory.net/rapid"
)

// DatePictureSoup generates date/time pictures from the marker grammar with
// valid and invalid parts: every component letter, presentation modifiers,
// width modifiers with small, large and malformed bounds, literal text and
// bracket escapes.
func DatePictureSoup() *rapid.Generator[string] {
	comp := []string{"Y", "M", "D", "d", "F", "W", "w", "H", "h", "P", "m", "s", "f", "Z", "z", "C", "E", "Q", "y", "", " ", "é"}
	pres := []string{"", "1", "01", "001", "0001", "9", "N", "n", "Nn", "o", "1o", "01o", "a", "A", "i", "I", "w", "Ww", "t", "1t", "01:01", "0101", "0", "Z", "1c", "#", "#1", "1,1", "é"}
	width := []string{"", ",1", ",2", ",*", ",2-4", ",*-2", ",*-4", ",1-*", ",*-*", ",4-2", ",0", ",-1", ",*-64", ",*-100", ",*-19", ",64", ",99999999999999999999", ",a", ",", ",1-2-3", ",3-3"}
	lit := []string{"", "-", ":", " ", "T", "/", "[[", "]]", "]", "[", "x", "é", "."}
	return rapid.Custom(func(t *rapid.T) string {
		var sb strings.Builder
		n := rapid.IntRange(1, 4).Draw(t, "markers")
		for i := 0; i < n; i++ {
			sb.WriteString(rapid.SampledFrom(lit).Draw(t, "lit"))
			sb.WriteString("[")
			sb.WriteString(rapid.SampledFrom(comp).Draw(t, "comp"))
			sb.WriteString(rapid.SampledFrom(pres).Draw(t, "pres"))
			sb.WriteString(rapid.SampledFrom(width).Draw(t, "width"))
			if rapid.IntRange(0, 12).Draw(t, "unterminated") != 0 {
				sb.WriteString("]")
			}
		}
		sb.WriteString(rapid.SampledFrom(lit).Draw(t, "tail"))
		return sb.String()
	})
}

// NumberPictureSoup generates decimal-format pictures, valid and invalid.
func NumberPictureSoup() *rapid.Generator[string] {
	parts := []string{"#", "0", "0", "#", ",", ".", "e", "%", "‰", ";", "-", "x", " ", "(", ")", "9", "1", "é", "$"}
	return rapid.Custom(func(t *rapid.T) string {
		ps := rapid.SliceOfN(rapid.SampledFrom(parts), 0, 10).Draw(t, "parts")
		return strings.Join(ps, "")
	})
}
