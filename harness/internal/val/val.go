// Package val is the harness's own JSON(ata) value model. It shares no code
// with the library under test: port results are normalised into it, reference
// implementations compute on it.
package val

import (
	"encoding/json"
	"fmt"
	"math"
	"reflect"
	"sort"
	"strconv"
	"strings"
)

type Kind int

const (
	Undef Kind = iota
	Null
	Bool
	Num
	Str
	Arr
	Obj
	Fn
)

func (k Kind) String() string {
	return [...]string{"undefined", "null", "boolean", "number", "string", "array", "object", "function"}[k]
}

// Value is an immutable-by-convention JSONata value.
type Value struct {
	K Kind
	B bool
	N float64
	S string
	A []Value
	O map[string]Value
	F interface{} // reference-evaluator function payload (nil for port functions)
	// Cons marks an array produced by an array constructor (kept as a unit by paths).
	Cons bool
	// KeepSingleton marks a sequence result whose path carried the [] marker.
	KeepSingleton bool
}

var (
	U     = Value{K: Undef}
	NullV = Value{K: Null}
	True  = Value{K: Bool, B: true}
	False = Value{K: Bool, B: false}
)

func B(b bool) Value    { return Value{K: Bool, B: b} }
func N(n float64) Value { return Value{K: Num, N: n} }
func S(s string) Value  { return Value{K: Str, S: s} }
func A(items ...Value) Value {
	if items == nil {
		items = []Value{}
	}
	return Value{K: Arr, A: items}
}
func O(m map[string]Value) Value {
	if m == nil {
		m = map[string]Value{}
	}
	return Value{K: Obj, O: m}
}
func F(payload interface{}) Value { return Value{K: Fn, F: payload} }

func (v Value) IsUndef() bool { return v.K == Undef }

// Keys returns the member names in sorted order.
func (v Value) Keys() []string {
	ks := make([]string, 0, len(v.O))
	for k := range v.O {
		ks = append(ks, k)
	}
	sort.Strings(ks)
	return ks
}

// FromGo normalises a Go value as returned by the library (or produced by
// encoding/json) into a Value: every numeric kind becomes a float64 number,
// typed slices and maps become generic arrays/objects, nil and (*interface{})(nil)
// become null, anything with a Call method becomes a function. An error is
// returned for anything else (evaluator-internal types, non-string map keys…).
func FromGo(x interface{}) (Value, error) {
	return fromReflect(reflect.ValueOf(x), 0)
}

func isCallable(t reflect.Type) bool {
	_, ok1 := t.MethodByName("Call")
	_, ok2 := t.MethodByName("ParamCount")
	return ok1 && ok2
}

func fromReflect(v reflect.Value, depth int) (Value, error) {
	if depth > 200 {
		return U, fmt.Errorf("value nested deeper than 200 (cyclic?)")
	}
	if !v.IsValid() {
		return NullV, nil
	}
	t := v.Type()
	if isCallable(t) {
		return Value{K: Fn}, nil
	}
	switch v.Kind() {
	case reflect.Interface:
		if v.IsNil() {
			return NullV, nil
		}
		return fromReflect(v.Elem(), depth+1)
	case reflect.Ptr:
		if v.IsNil() {
			if t.Elem().Kind() == reflect.Interface {
				return NullV, nil // the library's null: (*interface{})(nil)
			}
			return U, fmt.Errorf("nil pointer of type %s", t)
		}
		if t.Elem().Kind() == reflect.Struct {
			return U, fmt.Errorf("non-JSON type %s", t)
		}
		return fromReflect(v.Elem(), depth+1)
	case reflect.Bool:
		return B(v.Bool()), nil
	case reflect.Float32, reflect.Float64:
		return N(v.Float()), nil
	case reflect.Int, reflect.Int8, reflect.Int16, reflect.Int32, reflect.Int64:
		return N(float64(v.Int())), nil
	case reflect.Uint, reflect.Uint8, reflect.Uint16, reflect.Uint32, reflect.Uint64:
		return N(float64(v.Uint())), nil
	case reflect.String:
		return S(v.String()), nil
	case reflect.Slice, reflect.Array:
		// a nil slice is an empty array to the evaluator (it marshals as null,
		// which C10 checks separately through json.Marshal itself)
		out := make([]Value, v.Len())
		for i := range out {
			e, err := fromReflect(v.Index(i), depth+1)
			if err != nil {
				return U, err
			}
			out[i] = e
		}
		return Value{K: Arr, A: out}, nil
	case reflect.Map:
		if t.Key().Kind() != reflect.String {
			return U, fmt.Errorf("map with non-string key type %s", t)
		}
		out := make(map[string]Value, v.Len())
		it := v.MapRange()
		for it.Next() {
			e, err := fromReflect(it.Value(), depth+1)
			if err != nil {
				return U, err
			}
			out[it.Key().String()] = e
		}
		return Value{K: Obj, O: out}, nil
	}
	return U, fmt.Errorf("non-JSON type %s", t)
}

// ToGo converts a Value to the representation encoding/json produces
// (float64, string, bool, nil, []interface{}, map[string]interface{}).
// Undefined and functions cannot be represented and become nil.
func ToGo(v Value) interface{} {
	switch v.K {
	case Bool:
		return v.B
	case Num:
		return v.N
	case Str:
		return v.S
	case Arr:
		out := make([]interface{}, len(v.A))
		for i, e := range v.A {
			out[i] = ToGo(e)
		}
		return out
	case Obj:
		out := make(map[string]interface{}, len(v.O))
		for k, e := range v.O {
			out[k] = ToGo(e)
		}
		return out
	}
	return nil
}

// Equal is deep equality: numbers by ==, arrays ordered, objects unordered,
// functions equal to functions (the harness never compares function identity).
func Equal(a, b Value) bool {
	if a.K != b.K {
		return false
	}
	switch a.K {
	case Bool:
		return a.B == b.B
	case Num:
		return a.N == b.N
	case Str:
		return a.S == b.S
	case Arr:
		if len(a.A) != len(b.A) {
			return false
		}
		for i := range a.A {
			if !Equal(a.A[i], b.A[i]) {
				return false
			}
		}
		return true
	case Obj:
		if len(a.O) != len(b.O) {
			return false
		}
		for k, x := range a.O {
			y, ok := b.O[k]
			if !ok || !Equal(x, y) {
				return false
			}
		}
		return true
	}
	return true
}

// EqualBits is Equal with numbers compared bitwise (sign of zero matters).
func EqualBits(a, b Value) bool {
	if a.K != b.K {
		return false
	}
	switch a.K {
	case Num:
		return math.Float64bits(a.N) == math.Float64bits(b.N)
	case Arr:
		if len(a.A) != len(b.A) {
			return false
		}
		for i := range a.A {
			if !EqualBits(a.A[i], b.A[i]) {
				return false
			}
		}
		return true
	case Obj:
		if len(a.O) != len(b.O) {
			return false
		}
		for k, x := range a.O {
			y, ok := b.O[k]
			if !ok || !EqualBits(x, y) {
				return false
			}
		}
		return true
	}
	return Equal(a, b)
}

// Canon is a canonical, human-readable rendering (sorted keys; JSON-like).
func Canon(v Value) string {
	var sb strings.Builder
	canon(&sb, v)
	return sb.String()
}

func canon(sb *strings.Builder, v Value) {
	switch v.K {
	case Undef:
		sb.WriteString("<undefined>")
	case Null:
		sb.WriteString("null")
	case Bool:
		sb.WriteString(strconv.FormatBool(v.B))
	case Num:
		if v.N == 0 && math.Signbit(v.N) {
			sb.WriteString("-0")
		} else {
			sb.WriteString(strconv.FormatFloat(v.N, 'g', -1, 64))
		}
	case Str:
		b, _ := json.Marshal(v.S)
		sb.Write(b)
	case Arr:
		sb.WriteByte('[')
		for i, e := range v.A {
			if i > 0 {
				sb.WriteByte(',')
			}
			canon(sb, e)
		}
		sb.WriteByte(']')
	case Obj:
		sb.WriteByte('{')
		for i, k := range v.Keys() {
			if i > 0 {
				sb.WriteByte(',')
			}
			b, _ := json.Marshal(k)
			sb.Write(b)
			sb.WriteByte(':')
			canon(sb, v.O[k])
		}
		sb.WriteByte('}')
	case Fn:
		sb.WriteString("<function>")
	}
}

// ParseJSON decodes a JSON text into a Value (numbers as float64).
func ParseJSON(text string) (Value, error) {
	var x interface{}
	if err := json.Unmarshal([]byte(text), &x); err != nil {
		return U, err
	}
	return FromGo(x)
}

// MustJSON is ParseJSON for literals in the harness.
func MustJSON(text string) Value {
	v, err := ParseJSON(text)
	if err != nil {
		panic(err)
	}
	return v
}

// JSON renders a JSON-representable Value as JSON text (sorted keys).
func JSON(v Value) string {
	b, err := json.Marshal(ToGo(v))
	if err != nil {
		return "null"
	}
	return string(b)
}

// Truthy is JSONata's boolean cast.
func Truthy(v Value) bool {
	switch v.K {
	case Bool:
		return v.B
	case Num:
		return v.N != 0
	case Str:
		return v.S != ""
	case Arr:
		for _, e := range v.A {
			if Truthy(e) {
				return true
			}
		}
		return false
	case Obj:
		return len(v.O) > 0
	}
	return false
}

// Clone makes a deep copy.
func Clone(v Value) Value {
	switch v.K {
	case Arr:
		out := make([]Value, len(v.A))
		for i, e := range v.A {
			out[i] = Clone(e)
		}
		c := v
		c.A = out
		return c
	case Obj:
		out := make(map[string]Value, len(v.O))
		for k, e := range v.O {
			out[k] = Clone(e)
		}
		c := v
		c.O = out
		return c
	}
	return v
}
